#!/usr/bin/env python3
import json, glob, sys
try:
    import jsonschema
except ImportError:
    sys.exit("run with python3-vt")
jsonschema.validate(json.load(open('/verif/MANIFEST.json')), json.load(open('/root/.vp/MANIFEST.schema.json')))
sch = json.load(open('/root/.vp/EVIDENCE.schema.json'))
for f in sorted(glob.glob('/verif/evidence/C*.json')):
    jsonschema.validate(json.load(open(f)), sch)
    print("ok", f)
print("manifest ok")
