#!/bin/bash
# Builds everything the checks need from files on disk only (offline).
set -euo pipefail
cd "$(dirname "$0")"
export GOFLAGS=-mod=mod GOPROXY=off GOSUMDB=off GOTOOLCHAIN=local TZ=UTC
mkdir -p build evidence
GOROOT_DIR="$(go env GOROOT)"
SRC="$GOROOT_DIR/src/runtime/map.go"
DST="$PWD/build/runtime_map.go"
ANCHOR='	r := uintptr(rand())'
if [ "$(grep -c -F "$ANCHOR" "$SRC")" != "1" ]; then
  echo "setup: anchor line not found exactly once in $SRC (unsupported Go runtime)" >&2
  exit 2
fi
python3 - "$SRC" "$DST" <<'PY'
import sys
src, dst = sys.argv[1], sys.argv[2]
s = open(src).read()
anchor = "\tr := uintptr(rand())\n"
assert s.count(anchor) == 1
s = s.replace(anchor, anchor + "\tif verifMapIterHook != nil {\n\t\tif v, ok := verifMapIterHook(h.count, h.B, getcallerpc()); ok {\n\t\t\tr = v\n\t\t}\n\t}\n")
s += """
// verif: hook that lets the checker own the random start of map iteration.
var verifMapIterHook func(count int, B uint8, pc uintptr) (uintptr, bool)

//go:linkname verifSetMapIterHook
func verifSetMapIterHook(f func(count int, B uint8, pc uintptr) (uintptr, bool)) {
	verifMapIterHook = f
}
"""
open(dst, "w").write(s)
PY
cat > build/overlay.json <<JSON
{"Replace": {"$SRC": "$DST"}}
JSON
cp /repo/go.sum mc/go.sum
(cd mc && go build -tags verif -overlay ../build/overlay.json -o ../build/mc . )
(cd mc && go build -race -tags verif -overlay ../build/overlay.json -o ../build/mc_race . )
echo "setup ok"
