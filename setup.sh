#!/bin/bash
# Builds everything the checks need from files on disk only (offline).
set -euo pipefail
cd "$(dirname "$0")"
export GOFLAGS=-mod=mod GOPROXY=off GOSUMDB=off GOTOOLCHAIN=local TZ=UTC
mkdir -p build evidence
GOROOT_DIR="$(go env GOROOT)"
SRC="$GOROOT_DIR/src/runtime/map.go"
DST="$PWD/build/runtime_map.go"
ANCHOR='	r := uintptr(rand())'
if [ "$(grep -c -F "$ANCHOR" "$SRC")" != "1" ]; then
  echo "setup: anchor line not found exactly once in $SRC (unsupported Go runtime)" >&2
  exit 2
fi
python3 - "$SRC" "$DST" <<'PY'
import sys
src, dst = sys.argv[1], sys.argv[2]
s = open(src).read()
anchor = "\tr := uintptr(rand())\n"
assert s.count(anchor) == 1
s = s.replace(anchor, anchor + "\tif verifMapIterHook != nil {\n\t\tif v, ok := verifMapIterHook(h.count, h.B, getcallerpc()); ok {\n\t\t\tr = v\n\t\t}\n\t}\n")
s += """
// verif: hook that lets the checker own the random start of map iteration.
var verifMapIterHook func(count int, B uint8, pc uintptr) (uintptr, bool)

//go:linkname verifSetMapIterHook
func verifSetMapIterHook(f func(count int, B uint8, pc uintptr) (uintptr, bool)) {
	verifMapIterHook = f
}
"""
open(dst, "w").write(s)
PY
cat > build/overlay.json <<JSON
{"Replace": {"$SRC": "$DST"}}
JSON
# For the race-detector build (C18) sync.Pool is replaced by an implementation that never
# keeps anything: Get returns New(), Put drops. That is an admissible Pool (it may drop any
# item at any time) and removes the happens-before edges - created at random, because the
# race build drops one Put in four - that pooled objects passing from one call to another
# would otherwise add, which would make race detection depend on the history of the process.
cat > build/sync_pool.go <<'GO'
package sync

// A Pool that keeps nothing (verification build only; see /verif/setup.sh).
type Pool struct {
	noCopy noCopy

	// New optionally specifies a function to generate a value when Get would otherwise return nil.
	New func() any
}

// Put drops x.
func (p *Pool) Put(x any) {}

// Get returns New() or nil.
func (p *Pool) Get() any {
	if p.New != nil {
		return p.New()
	}
	return nil
}
GO
cat > build/overlay_race.json <<JSON
{"Replace": {"$SRC": "$DST", "$GOROOT_DIR/src/sync/pool.go": "$PWD/build/sync_pool.go"}}
JSON
cp /repo/go.sum mc/go.sum
(cd mc && go build -tags verif -overlay ../build/overlay.json -o ../build/mc . )
(cd mc && go build -race -tags verif -overlay ../build/overlay_race.json -o ../build/mc_race . )
echo "setup ok"
