#!/bin/bash
# Builds everything the checks need from files on disk only (offline).
set -euo pipefail
cd "$(dirname "$0")"
export GOFLAGS=-mod=mod GOPROXY=off GOSUMDB=off GOTOOLCHAIN=local TZ=UTC
mkdir -p build evidence
GOROOT_DIR="$(go env GOROOT)"
SRC="$GOROOT_DIR/src/runtime/map.go"
DST="$PWD/build/runtime_map.go"
ANCHOR='	r := uintptr(rand())'
if [ "$(grep -c -F "$ANCHOR" "$SRC")" != "1" ]; then
  echo "setup: anchor line not found exactly once in $SRC (unsupported Go runtime)" >&2
  exit 2
fi
python3 - "$SRC" "$DST" <<'PY'
import sys
src, dst = sys.argv[1], sys.argv[2]
s = open(src).read()
anchor = "\tr := uintptr(rand())\n"
assert s.count(anchor) == 1
s = s.replace(anchor, anchor + "\tif verifMapIterHook != nil {\n\t\tif v, ok := verifMapIterHook(h.count, h.B, getcallerpc()); ok {\n\t\t\tr = v\n\t\t}\n\t}\n")
s += """
// verif: hook that lets the checker own the random start of map iteration.
var verifMapIterHook func(count int, B uint8, pc uintptr) (uintptr, bool)

//go:linkname verifSetMapIterHook
func verifSetMapIterHook(f func(count int, B uint8, pc uintptr) (uintptr, bool)) {
	verifMapIterHook = f
}
"""
open(dst, "w").write(s)
PY
# The wall clock becomes an environment answer the checker decides: time.Now / Since / Until add
# an offset (seconds) that the checker sets around library calls (C06 wall-clock scenario, C19
# clock jumps). The offset is 0 whenever the harness itself reads the clock.
TSRC="$GOROOT_DIR/src/time/time.go"
TDST="$PWD/build/time_time.go"
python3 - "$TSRC" "$TDST" <<'PY'
import sys
src, dst = sys.argv[1], sys.argv[2]
s = open(src).read()
a1 = "\tsec, nsec, mono := now()\n\tmono -= startNano\n"
assert s.count(a1) == 1, "time.Now anchor"
s = s.replace(a1, a1 + "\tif off := verifClockOffset; off != 0 {\n\t\tsec += off\n\t\tmono += off * 1e9\n\t}\n")
a2 = "runtimeNano()-startNano"
assert s.count(a2) == 2, "time.Since/Until anchors"
s = s.replace(a2, "runtimeNano()-startNano+verifClockOffset*1e9")
s += """
// verif: offset in seconds added to the wall and monotonic clocks as seen through Now, Since and Until.
var verifClockOffset int64

//go:linkname verifSetClockOffset
func verifSetClockOffset(sec int64) {
	verifClockOffset = sec
}
"""
open(dst, "w").write(s)
PY
cat > build/overlay.json <<JSON
{"Replace": {"$SRC": "$DST", "$TSRC": "$TDST"}}
JSON
# For the race-detector build (C18) sync.Pool is replaced by an implementation that never
# keeps anything: Get returns New(), Put drops. That is an admissible Pool (it may drop any
# item at any time) and removes the happens-before edges - created at random, because the
# race build drops one Put in four - that pooled objects passing from one call to another
# would otherwise add, which would make race detection depend on the history of the process.
cat > build/sync_pool.go <<'GO'
package sync

// A Pool that keeps nothing (verification build only; see /verif/setup.sh).
type Pool struct {
	noCopy noCopy

	// New optionally specifies a function to generate a value when Get would otherwise return nil.
	New func() any
}

// Put drops x.
func (p *Pool) Put(x any) {}

// Get returns New() or nil.
func (p *Pool) Get() any {
	if p.New != nil {
		return p.New()
	}
	return nil
}
GO
cat > build/overlay_race.json <<JSON
{"Replace": {"$SRC": "$DST", "$TSRC": "$TDST", "$GOROOT_DIR/src/sync/pool.go": "$PWD/build/sync_pool.go"}}
JSON
cp /repo/go.sum mc/go.sum
(cd mc && go build -tags verif -overlay ../build/overlay.json -o ../build/mc . )
(cd mc && go build -race -tags verif -overlay ../build/overlay_race.json -o ../build/mc_race . )
echo "setup ok"
