#!/bin/bash
# Diagnostic (not a registered check): block coverage of the library by the quick tier of every check
# (C18 with the race build). Lists the library blocks no check executes, and the GTFS-realtime wire
# fields / enum values no check ever populates. Scratch data on /dev/shm.
# usage: coverage.sh [quick|thorough] [Cnn: only that check]
cd "$(dirname "$0")"
export GOFLAGS=-mod=mod GOPROXY=off GOSUMDB=off GOTOOLCHAIN=local TZ=UTC
S=$(mktemp -d /dev/shm/verifcov.XXXXXX); trap 'rm -rf $S' EXIT
mkdir -p $S/verif/evidence $S/f; cp known_findings.txt $S/verif/
(cd mc && go build -cover -coverpkg=.,github.com/jamespfennell/gtfs/... -tags verif -overlay ../build/overlay.json -o $S/mc_cover .) || exit 2
(cd mc && go build -race -cover -coverpkg=.,github.com/jamespfennell/gtfs/... -tags verif -overlay ../build/overlay_race.json -o $S/mc_cover_race .) || exit 2
ONLY=${2:-}
for i in $(seq -w 1 20); do id=C$i; [ -n "$ONLY" ] && [ "$ONLY" != "$id" ] && continue; mkdir -p $S/data/$id
  if [ $id = C18 ]; then VERIF_FIELDCOV=$S/f/$id VERIF_DIR=$S/verif GOCOVERDIR=$S/data/$id GORACE="exitcode=0 history_size=4" $S/mc_cover_race $id ${1:-quick} 2>&1 | grep -E "^C[0-9]+ " | cut -c1-100; continue; fi
  VERIF_FIELDCOV=$S/f/$id VERIF_DIR=$S/verif GOCOVERDIR=$S/data/$id $S/mc_cover $id ${1:-quick} 2>&1 | grep -E "^C[0-9]+ " | cut -c1-100; done
# the race build (C18) has its own meta-data: convert it separately, the summary below adds the counts up
dirs=$(ls -d $S/data/* | grep -v /C18$ | tr '\n' ',' | sed 's/,$//')
: > $S/all.txt
[ -n "$dirs" ] && (cd mc && go tool covdata textfmt -i=$dirs -o $S/a1.txt && cat $S/a1.txt >> $S/all.txt)
[ -d $S/data/C18 ] && (cd mc && go tool covdata textfmt -i=$S/data/C18 -o $S/a2.txt && cat $S/a2.txt >> $S/all.txt)
python3 - $S/all.txt <<'PY'
import re,collections,sys
cov=collections.defaultdict(int)
for l in open(sys.argv[1]):
    m=re.match(r'(.*):(\d+)\.(\d+),(\d+)\.(\d+) (\d+) (\d+)',l)
    if not m: continue
    f,sl,sc,el,ec,n,c=m.groups()
    if '/proto/' in f or not f.startswith('github.com/jamespfennell/gtfs'): continue
    cov[(f,int(sl),int(el))]+=int(c)
unc=sorted(k for k,v in cov.items() if v==0)
for f,sl,el in unc:
    path=f.replace('github.com/jamespfennell/gtfs','/repo')
    try: line=open(path).read().split('\n')[sl-1].strip()
    except Exception: line='?'
    print("UNCOVERED %s:%d-%d  %s"%(f.replace('github.com/jamespfennell/gtfs/',''),sl,el,line[:100]))
print("library blocks: %d, executed by some check: %d"%(len(cov),len(cov)-len(unc)))
PY
# wire fields / enum values of GTFS-realtime (extensions included) that no check ever populates
cat $S/f/* 2>/dev/null | sort -u > $S/seen.txt
$S/mc_cover --fieldcov-universe | sort -u > $S/universe.txt
comm -23 $S/universe.txt $S/seen.txt | sed 's/^/NEVER-POPULATED /'
echo "wire fields and enum values: $(wc -l < $S/universe.txt), populated by some check: $(comm -12 $S/universe.txt $S/seen.txt | wc -l)"
# are the dumps the oracles compare sensitive to every surfaced field? (each leaf changed one at a time)
$S/mc_cover --selftest 2>/dev/null
