#!/usr/bin/env python3
# Generates MANIFEST.json from the table below (kept next to the checks so it stays current).
import json, subprocess, os
here = os.path.dirname(os.path.abspath(__file__))
props = [json.loads(l) for l in open(os.path.join(here, "properties.jsonl"))]
claimed = json.load(open(os.path.join(here, "claims.json")))
hooks = json.load(open(os.path.join(here, "hooks.json")))
checks, na = [], []
for p in props:
    pid = p["id"]
    c = claimed.get(pid)
    if not c or c.get("not_applicable"):
        na.append({"property_id": pid, "reason": (c or {}).get("not_applicable", "check not built yet in this session; see DESIGN.md section 3 for the planned exploration")})
        continue
    checks.append({
        "property_id": pid,
        "quick_cmd": "./vcheck %s quick" % pid,
        "thorough_cmd": "./vcheck %s thorough" % pid,
        "evidence_file": "/verif/evidence/%s.json" % pid,
        "replay_cmd_template": "./vcheck --replay {path}",
        "engine": c["engine"],
        "level_claimed": {"category": c["level"], "text": c["text"], "design_ref": c["design_ref"]},
        "level_note": c["note"],
        "technique": c["technique"],
    })
m = {
    "version": 1,
    "setup_cmd": "./setup.sh",
    "hooks": hooks,
    "engines": [
        {"name": "E1 choice explorer", "path": "mc/engine.go", "serves_properties": [c["property_id"] for c in checks], "kind_free_text": "stateless deviation-bounded DFS over choice vectors, executing the real library for every vector; 16 worker processes; cross-execution relation tables"},
        {"name": "E2 map-order control", "path": "mc/maphook.go", "serves_properties": ["C03", "C06", "C07", "C09", "C11", "C12"], "kind_free_text": "Go runtime overlay making the start of every library map range a choice point (all rotations of single-bucket maps)"},
        {"name": "E3 controlled scheduler + race detector", "path": "mc/sched.go", "serves_properties": ["C18"], "kind_free_text": "cooperative scheduler with race-detector-invisible hand-off; preemption-bounded enumeration of interleavings, each executed under -race"},
    ],
    "checks": checks,
    "not_applicable": na,
    "notes": "All checks: ./vcheck <id> <tier>; exit 0 held / exit 1 with VIOLATION line / exit 2 harness error. Known findings: known_findings.txt (never written at run time).",
}
json.dump(m, open(os.path.join(here, "MANIFEST.json"), "w"), indent=1)
print("claimed:", [c["property_id"] for c in checks])
print("not claimed:", [n["property_id"] for n in na])
