package main

// C17 - NYCT alerts extension groups elevator alerts and maps Mercury data as documented.
//
// Enumerated: (1) ordered sequences of <= 3 (thorough <= 5) elevator alerts drawn with
// repetition from {A27, E01} x {N, S, none} x {EL1, EL2} (12 ids - every order of every
// group), optionally with a non-elevator alert in between, x 3 policies x station-id flag;
// (2) non-elevator alerts over EVERY Mercury priority value 1..40 plus unknown / malformed /
// absent ones x id prefix {lmm:planned_work.., lmm:alert.., other} x Mercury alert extension
// {absent, present} x own cause/effect x second selector {none, same, other priority} x skip
// flag x metadata flag; (3) mixed feeds x all 24 configurations. A fresh extension per feed, and the same extension for a second parse of the feed.
// Oracle: reference grouping by policy (ids as documented, cause/effect, informed stops as a
// set), priority->effect and timetabled-no-service tables transcribed here, pass-through =
// equality with the extension-free parse.

import (
	"encoding/json"
	"fmt"
	"sort"
	"strings"
	"time"

	"github.com/jamespfennell/gtfs"
	"github.com/jamespfennell/gtfs/extensions/nyctalerts"
	gtfsrt "github.com/jamespfennell/gtfs/proto"
	"google.golang.org/protobuf/proto"
)

var elevStations = []string{"A27", "E01"}
var elevSuffix = []string{"N", "S", ""}
var elevIDs = []string{"1", "1X"} // two elevators whose ids share their digits

type elevAlert struct{ station, suffix, elev string }

func (e elevAlert) id() string { return e.station + e.suffix + "#EL" + e.elev }

func elevFromIndex(i int) elevAlert {
	return elevAlert{elevStations[i/6], elevSuffix[(i/2)%3], elevIDs[i%2]}
}

// the zero value ("" - the policy left unset) is documented to mean no deduplication
var policies = []nyctalerts.ElevatorAlertsDeduplicationPolicy{nyctalerts.NoDeduplication, nyctalerts.DeduplicateInStation, nyctalerts.DeduplicateInComplex, ""}

// priority -> effect, transcribed from the documented mapping
func refPriorityEffect(p int) (gtfs.AlertEffect, bool) {
	switch p {
	case 1, 39, 40:
		return gtfs.NoService, true
	case 2, 3, 4, 15, 25, 37:
		return gtfs.ReducedService, true
	case 9:
		return gtfs.AdditionalService, true
	case 19, 20, 27, 30:
		return gtfs.SignificantDelays, true
	case 5, 6, 7, 8, 10, 11, 12, 13, 14, 16, 17, 18, 21, 22, 23, 24, 26, 28, 29, 31, 32, 33, 34, 35, 36, 38:
		return gtfs.ModifiedService, true
	}
	return 0, false
}

func refTimetabledNoService(p int) bool { return p == 2 || p == 3 || p == 4 }

type c17Group struct {
	id    string
	stops map[string]bool
}

// refElevatorGroups computes the expected elevator output alerts.
func refElevatorGroups(seq []elevAlert, policy nyctalerts.ElevatorAlertsDeduplicationPolicy, useStation bool) map[string]*c17Group {
	out := map[string]*c17Group{}
	for _, e := range seq {
		var gid string
		switch policy {
		case nyctalerts.DeduplicateInStation:
			gid = e.station + "#EL" + e.elev
		case nyctalerts.DeduplicateInComplex:
			gid = "elevator:EL" + e.elev
		default:
			gid = e.station + e.suffix + "#EL" + e.elev
		}
		g := out[gid]
		if g == nil {
			g = &c17Group{id: gid, stops: map[string]bool{}}
			out[gid] = g
		}
		if useStation {
			g.stops[e.station] = true
		} else {
			g.stops[e.station+e.suffix] = true
		}
	}
	return out
}

func c17CheckElevators(c *Ctx, r *gtfs.Realtime, seq []elevAlert, policy nyctalerts.ElevatorAlertsDeduplicationPolicy, useStation bool, desc string) {
	want := refElevatorGroups(seq, policy, useStation)
	got := map[string]int{}
	for i := range r.Alerts {
		a := &r.Alerts[i]
		if !strings.Contains(a.ID, "#EL") && !strings.HasPrefix(a.ID, "elevator:") {
			continue
		}
		got[a.ID]++
		g := want[a.ID]
		if g == nil {
			c.Fail("elevator:unexpected-alert-id", "%s: output alert %q belongs to no group (expected ids %v)", desc, a.ID, keysOf(want))
			continue
		}
		if a.Cause != gtfs.Maintenance || a.Effect != gtfs.AccessibilityIssue {
			c.Fail("elevator:cause-effect", "%s: alert %q has cause %v effect %v", desc, a.ID, a.Cause, a.Effect)
		}
		stops := map[string]int{}
		for _, e := range a.InformedEntities {
			if e.StopID == nil || e.AgencyID != nil || e.RouteID != nil || e.TripID != nil {
				c.Fail("elevator:informed-entity-shape", "%s: alert %q has a non-stop informed entity %s", desc, a.ID, dumpInformed(e))
				continue
			}
			stops[*e.StopID]++
		}
		var gs, ws []string
		for s, n := range stops {
			gs = append(gs, s)
			if n > 1 {
				c.Fail("elevator:duplicate-stop", "%s: alert %q informs stop %q %d times", desc, a.ID, s, n)
			}
		}
		for s := range g.stops {
			ws = append(ws, s)
		}
		sort.Strings(gs)
		sort.Strings(ws)
		if strings.Join(gs, ",") != strings.Join(ws, ",") {
			c.Fail("elevator:informed-stops", "%s: alert %q informs %v, the group's members are %v", desc, a.ID, gs, ws)
		}
	}
	for id := range want {
		if got[id] != 1 {
			c.Fail("elevator:group-count", "%s: group %q has %d output alerts, want exactly 1", desc, id, got[id])
		}
	}
}

func keysOf(m map[string]*c17Group) []string {
	var k []string
	for x := range m {
		k = append(k, x)
	}
	sort.Strings(k)
	return k
}

// c17ElevatorSortOrder: when non-empty, the informed entity of elevator alerts carries the Mercury
// entity-selector extension with this sort order (an elevator alert stays an elevator alert)
var c17ElevatorSortOrder string

// c17AlarmingHeader: the header text of Mercury alerts mentions police / medical / sick / NYPD
var c17AlarmingHeader int

// c17SelectorKind: what the selectors of Mercury alerts name: 0 a route, 1 a stop, 2 only the agency
var c17SelectorKind int

func elevEntity(e elevAlert, n int) *gtfsrt.FeedEntity {
	// the wire alert informs the platform through a route+stop selector, as the MTA feed does
	sel := &gtfsrt.EntitySelector{StopId: sp(e.station + e.suffix), AgencyId: sp("MTASBWY")}
	if c17ElevatorSortOrder != "" {
		proto.SetExtension(sel, gtfsrt.E_MercuryEntitySelector, &gtfsrt.MercuryEntitySelector{SortOrder: sp(c17ElevatorSortOrder)})
	}
	ent := &gtfsrt.FeedEntity{Id: sp(e.id()), Alert: &gtfsrt.Alert{
		InformedEntity: []*gtfsrt.EntitySelector{sel},
		HeaderText:     &gtfsrt.TranslatedString{Translation: []*gtfsrt.TranslatedString_Translation{{Text: sp(fmt.Sprintf("elevator out %d", n))}}},
	}}
	if n%2 == 1 {
		// the alerts at odd positions carry an active period (each its own start), the others none: the members
		// of a group differ in more than their platform
		ent.Alert.ActivePeriod = []*gtfsrt.TimeRange{{Start: u64p(uint64(1700000000 + 60*n))}}
	}
	return ent
}

func plainAlertEntity(id string) *gtfsrt.FeedEntity {
	return &gtfsrt.FeedEntity{Id: sp(id), Alert: &gtfsrt.Alert{
		InformedEntity: []*gtfsrt.EntitySelector{{RouteId: sp("Q")}},
		Cause:          gtfsrt.Alert_STRIKE.Enum(), Effect: gtfsrt.Alert_DETOUR.Enum(),
		HeaderText: &gtfsrt.TranslatedString{Translation: []*gtfsrt.TranslatedString_Translation{{Text: sp("plain alert"), Language: sp("en")}}},
	}}
}

func c17Elevators(maxLen int) Harness {
	return func(c *Ctx) {
		policy := policies[c.Free("policy", len(policies))]
		useStation := c.Free("inform_using_station_ids", 2) == 1
		n := c.Free("elevator_alerts", maxLen+1)
		// station ids that themselves begin with a direction letter and share their digits (real ones:
		// Sea Beach N02-N10, Franklin shuttle S01-S04)
		directionLetterStations := c.Free("stations", 2) == 1
		var seq []elevAlert
		var ids []string
		for i := 0; i < n; i++ {
			e := elevFromIndex(c.Free(fmt.Sprintf("alert[%d]", i), 12))
			if directionLetterStations {
				e.station = map[string]string{"A27": "N04", "E01": "S04"}[e.station]
				c.Witness("station_id_begins_with_N_or_S")
			}
			seq = append(seq, e)
			ids = append(ids, e.id())
		}
		plainAt := c.Free("plain_alert_position", n+2) - 1 // -1: none
		m := newFeed(cp(&tsAlphabet[0]))
		for i, e := range seq {
			if plainAt == i {
				m.Entity = append(m.Entity, plainAlertEntity("plain-1"))
			}
			m.Entity = append(m.Entity, elevEntity(e, i))
		}
		if plainAt == n {
			m.Entity = append(m.Entity, plainAlertEntity("plain-1"))
		}
		opts := nyctalerts.ExtensionOpts{ElevatorAlertsDeduplicationPolicy: policy, ElevatorAlertsInformUsingStationIDs: useStation}
		// the groups are per feed: when the same extension value parses the feed a second time,
		// the second result must satisfy the same oracle (0: one parse; 1: check the second parse)
		secondParse := c.Free("check_second_parse_with_the_same_extension", 2) == 1
		desc := fmt.Sprintf("policy=%s stationIDs=%v alerts=%v plainAt=%d secondParse=%v", policy, useStation, ids, plainAt, secondParse)
		b := marshalFeed(m)
		groups := refElevatorGroups(seq, policy, useStation)
		c.Input(hash64(string(b)+desc), n >= 2, func() string { return desc + "\n" + feedText(m) })
		ext := nyctalerts.Extension(opts)
		r, err, ok := parseRT(c, b, &gtfs.ParseRealtimeOptions{Extension: ext})
		if ok && err == nil && secondParse {
			r, err, ok = parseRT(c, append([]byte(nil), b...), &gtfs.ParseRealtimeOptions{Extension: ext})
		}
		if !ok {
			return
		}
		c.Steps(len(m.Entity))
		if err != nil {
			c.Fail("valid-message-rejected", "%v", err)
			return
		}
		var al []string
		for i := range r.Alerts {
			al = append(al, dumpAlert(&r.Alerts[i]))
		}
		c.Outcome(strings.Join(al, "\n"))
		c17CheckElevators(c, r, seq, policy, useStation, desc)
		// the plain alert passes through unchanged
		if plainAt >= 0 {
			pm := newFeed(cp(&tsAlphabet[0]))
			pm.Entity = []*gtfsrt.FeedEntity{plainAlertEntity("plain-1")}
			pr, err, ok := parseRT(c, marshalFeed(pm), &gtfs.ParseRealtimeOptions{})
			if !ok || err != nil {
				harnessBug("plain parse: %v", err)
			}
			found := false
			for i := range r.Alerts {
				if r.Alerts[i].ID == "plain-1" {
					found = true
					if w, g := dumpAlert(&pr.Alerts[0]), dumpAlert(&r.Alerts[i]); w != g {
						c.Fail("pass-through", "%s: plain alert changed\n%s", desc, diffLines(w, g))
					}
				}
			}
			if !found {
				c.Fail("pass-through:lost", "%s: plain alert missing from the output", desc)
			}
		}
		for _, g := range groups {
			if len(g.stops) >= 2 {
				c.Witness("group_with_several_stops")
			}
		}
		if len(groups) < n {
			c.Witness("members_merged")
		}
	}
}

type mercurySpec struct {
	prio1, prio2 int // index into c17Priorities; -1 none
	prefix       int
	hasExt       bool
	ownCE        bool
	skip, meta   bool
}

// priorities: 1..40, then unknown values and malformed sort orders
var c17SortOrders []string
var c17PrioValues []int // -1: no usable priority

func init() {
	for p := 1; p <= 40; p++ {
		c17SortOrders = append(c17SortOrders, fmt.Sprintf("MTASBWY:A:%d", p))
		c17PrioValues = append(c17PrioValues, p)
	}
	// the documented format is GTFS-ID:Priority; the GTFS id of an agency has one segment, that of a
	// route two, that of a stop on a route three: the priority is what follows the last colon
	for _, sv := range []struct {
		s string
		v int
	}{{"MTASBWY:1", 1}, {"MTASBWY:3", 3}, {"MTASBWY:22", 22}, {"MTASBWY:A:A27:1", 1}, {"MTASBWY:A:A27:3", 3}, {"MTABC:BX12:503412:22", 22}} {
		c17SortOrders = append(c17SortOrders, sv.s)
		c17PrioValues = append(c17PrioValues, sv.v)
	}
	for _, s := range []string{"MTASBWY:A:0", "MTASBWY:A:41", "MTASBWY:A:99", "MTASBWY:A:x", "nocolon", ""} {
		c17SortOrders = append(c17SortOrders, s)
		v := -1
		fmt.Sscanf(s, "MTASBWY:A:%d", &v)
		c17PrioValues = append(c17PrioValues, v)
	}
}

func mercurySelector(route string, so int) *gtfsrt.EntitySelector {
	e := &gtfsrt.EntitySelector{RouteId: sp(route)}
	switch c17SelectorKind {
	case 1:
		e = &gtfsrt.EntitySelector{StopId: sp("A27")} // a station notice: the priority sits on a stop selector
	case 2:
		e = &gtfsrt.EntitySelector{AgencyId: sp("MTASBWY")}
	}
	if so >= 0 {
		proto.SetExtension(e, gtfsrt.E_MercuryEntitySelector, &gtfsrt.MercuryEntitySelector{SortOrder: sp(c17SortOrders[so])})
	}
	return e
}

var c17Prefixes = []string{"lmm:planned_work:123", "lmm:alert:456", "other:789"}

func c17MercuryEntity(c *Ctx, s mercurySpec) *gtfsrt.FeedEntity {
	header := "service change"
	switch c17AlarmingHeader { // the cause comes from the id prefix, not from the wording
	case 1:
		header = "Delays while the NYPD conducts an investigation; POLICE on the scene"
	case 2:
		header = "Delays after we helped a sick passenger who needed Medical help"
	case 3: // several vocabularies at once
		header = "Delays while NYPD and EMS respond to someone who needs medical help after a person was struck by a train; police activity, weather, demonstration"
	}
	a := &gtfsrt.Alert{HeaderText: &gtfsrt.TranslatedString{Translation: []*gtfsrt.TranslatedString_Translation{{Text: sp(header)}}},
		// a description whose first translation has no language (the field is optional) next to one that has
		DescriptionText: &gtfsrt.TranslatedString{Translation: []*gtfsrt.TranslatedString_Translation{{Text: sp("details")}, {Text: sp("details (html)"), Language: sp("en-html")}}}}
	a.InformedEntity = append(a.InformedEntity, mercurySelector("A", s.prio1))
	if s.prio2 != -2 {
		a.InformedEntity = append(a.InformedEntity, mercurySelector("C", s.prio2))
	}
	if s.ownCE {
		a.Cause = gtfsrt.Alert_WEATHER.Enum()
		a.Effect = gtfsrt.Alert_STOP_MOVED.Enum()
	}
	if s.hasExt {
		proto.SetExtension(a, gtfsrt.E_MercuryAlert, &gtfsrt.MercuryAlert{CreatedAt: cp(&tsAlphabet[0]), UpdatedAt: cp(&tsAlphabet[3]), AlertType: sp("Planned - Part Suspended"),
			DisplayBeforeActive: cp(new(uint64)), HumanReadableActivePeriod: &gtfsrt.TranslatedString{Translation: []*gtfsrt.TranslatedString_Translation{{Text: sp("Weekends, until further notice")}, {Text: sp("second")}}}})
		d := uint64(3600)
		ma := proto.GetExtension(a, gtfsrt.E_MercuryAlert).(*gtfsrt.MercuryAlert)
		ma.DisplayBeforeActive = &d
		// the remaining fields of the Mercury alert extension are populated as well: the metadata
		// does not carry them and nothing else may depend on them
		yes := true
		note := &gtfsrt.TranslatedString{Translation: []*gtfsrt.TranslatedString_Translation{{Text: sp("use the elevator at the north end")}}}
		ma.StationAlternative = []*gtfsrt.MercuryStationAlternative{{AffectedEntity: &gtfsrt.EntitySelector{StopId: sp("A27")}, Notes: note}}
		ma.ServicePlanNumber, ma.GeneralOrderNumber = []string{"SP-1"}, []string{"GO-7", "GO-8"}
		ma.Directionality = cp(new(uint64))
		ma.AffectedStations = []*gtfsrt.EntitySelector{{StopId: sp("A27")}, {StopId: sp("E01")}}
		ma.ScreensSummary = note
		ma.NoAffectedStations = &yes
		ma.CloneId = sp("lmm:clone:1")
	}
	return &gtfsrt.FeedEntity{Id: sp(c17Prefixes[s.prefix]), Alert: a}
}

func c17CheckMercury(c *Ctx, r *gtfs.Realtime, plain *gtfs.Realtime, s mercurySpec, id string, desc string) {
	var got *gtfs.Alert
	for i := range r.Alerts {
		if r.Alerts[i].ID == id {
			got = &r.Alerts[i]
		}
	}
	var base *gtfs.Alert
	for i := range plain.Alerts {
		if plain.Alerts[i].ID == id {
			base = &plain.Alerts[i]
		}
	}
	if base == nil {
		harnessBug("plain parse lost alert %s", id)
	}
	// distinct usable priorities
	ps := map[int]bool{}
	for _, so := range []int{s.prio1, s.prio2} {
		if so >= 0 && c17PrioValues[so] >= 0 {
			ps[c17PrioValues[so]] = true
		}
	}
	single := -1
	if len(ps) == 1 {
		for p := range ps {
			single = p
		}
	}
	anyTimetabled, allTimetabled := false, len(ps) > 0
	for p := range ps {
		if refTimetabledNoService(p) {
			anyTimetabled = true
		} else {
			allTimetabled = false
		}
	}
	if got == nil {
		if !(s.skip && anyTimetabled) {
			c.Fail("mercury:dropped", "%s: alert dropped although it is not a timetabled no-service alert or the option is off", desc)
		}
		c.Witness("timetabled_alert_dropped")
		return
	}
	if s.skip && allTimetabled {
		c.Fail("mercury:not-dropped", "%s: timetabled no-service alert kept although skipping is enabled", desc)
	}
	want := *base
	switch s.prefix {
	case 0:
		want.Cause = gtfs.Maintenance
	case 1:
		want.Cause = gtfs.TechnicalProblem
	}
	effectAsserted := true
	if len(ps) == 0 {
		// no usable priority: effect unchanged
	} else if single >= 0 {
		if eff, ok := refPriorityEffect(single); ok {
			want.Effect = eff
		}
	} else {
		effectAsserted = false
	}
	wantMeta := s.meta && s.hasExt
	var gotDesc []gtfs.AlertText
	nMeta := 0
	for _, d := range got.Description {
		if d.Language == nyctalerts.MetadataLanguage {
			nMeta++
			var md nyctalerts.Metadata
			if err := json.Unmarshal([]byte(d.Text), &md); err != nil {
				c.Fail("mercury:metadata-json", "%s: metadata is not JSON: %v", desc, err)
			} else if md.CreatedAt.Unix() != int64(tsAlphabet[0]) || md.UpdatedAt.Unix() != int64(tsAlphabet[3]) || md.DisplayBeforeActive != 3600*time.Second || md.HumanReadableActivePeriod != "Weekends, until further notice" {
				c.Fail("mercury:metadata-content", "%s: metadata %+v does not match the Mercury alert", desc, md)
			}
			continue
		}
		gotDesc = append(gotDesc, d)
	}
	if wantMeta && nMeta != 1 || !wantMeta && nMeta != 0 {
		c.Fail("mercury:metadata-presence", "%s: %d metadata entries, requested=%v mercury-extension=%v", desc, nMeta, s.meta, s.hasExt)
	}
	g := *got
	g.Description = gotDesc
	if !effectAsserted {
		// several different priorities: which one wins is not specified, but it must be a mapped one (or unchanged)
		okEff := g.Effect == base.Effect
		for p := range ps {
			if eff, ok := refPriorityEffect(p); ok && eff == g.Effect {
				okEff = true
			}
		}
		if !okEff {
			c.Fail("mercury:effect", "%s: effect %v is not the effect of any of the alert's priorities", desc, g.Effect)
		}
		want.Effect = g.Effect
	}
	if w, gd := dumpAlert(&want), dumpAlert(&g); w != gd {
		sig := "mercury:" + firstDiffField(w, gd)
		c.Fail(sig, "%s\n%s", desc, diffLines(w, gd))
	}
}

func c17Mercury(c *Ctx) {
	s := mercurySpec{}
	s.prio1 = c.Free("priority", len(c17SortOrders)+1) - 1
	switch c.Free("second_selector", 4) {
	case 0:
		s.prio2 = -2
	case 1:
		s.prio2 = s.prio1
	case 2:
		s.prio2 = 29 // DELAYS
	case 3:
		s.prio2 = 2 // NO_OVERNIGHT_SERVICE
	}
	c17AlarmingHeader = 0
	if s.prio2 == -2 {
		c17AlarmingHeader = c.Free("header_wording", 3) // neutral, police, medical
	}
	defer func() { c17AlarmingHeader = 0 }()
	c17SelectorKind = 0
	if s.prio2 == -2 {
		c17SelectorKind = c.Free("selector_names", 3) // a route, a stop, only the agency
	}
	defer func() { c17SelectorKind = 0 }()
	s.prefix = c.Free("id_prefix", 3)
	s.hasExt = c.Free("mercury_alert_extension", 2) == 1
	s.ownCE = c.Free("own_cause_effect", 2) == 1
	s.skip = c.Free("skip_timetabled_no_service", 2) == 1
	s.meta = c.Free("add_metadata", 2) == 1
	m := newFeed(cp(&tsAlphabet[0]))
	m.Entity = []*gtfsrt.FeedEntity{c17MercuryEntity(c, s), plainAlertEntity("plain-1")}
	desc := fmt.Sprintf("%+v sortOrders=%q/%v", s, soName(s.prio1), soName(s.prio2))
	b := marshalFeed(m)
	c.Input(hash64(string(b)+desc), s.prio1 >= 0, func() string { return desc + "\n" + feedText(m) })
	opts := nyctalerts.ExtensionOpts{SkipTimetabledNoServiceAlerts: s.skip, AddNyctMetadata: s.meta}
	r, err, ok := parseRT(c, b, &gtfs.ParseRealtimeOptions{Extension: nyctalerts.Extension(opts)})
	if !ok {
		return
	}
	plain, err2, ok2 := parseRT(c, b, &gtfs.ParseRealtimeOptions{})
	if !ok2 || err2 != nil {
		harnessBug("plain parse: %v", err2)
	}
	c.Steps(4)
	if err != nil {
		c.Fail("valid-message-rejected", "%v", err)
		return
	}
	var al []string
	for i := range r.Alerts {
		al = append(al, dumpAlert(&r.Alerts[i]))
	}
	c.Outcome(strings.Join(al, "\n"))
	c17CheckMercury(c, r, plain, s, c17Prefixes[s.prefix], desc)
	// the plain alert next to it passes through unchanged
	var pa *gtfs.Alert
	for i := range r.Alerts {
		if r.Alerts[i].ID == "plain-1" {
			pa = &r.Alerts[i]
		}
	}
	if pa == nil {
		c.Fail("pass-through:lost", "%s: plain alert missing", desc)
	} else if w, g := dumpAlert(&plain.Alerts[len(plain.Alerts)-1]), dumpAlert(pa); w != g {
		c.Fail("pass-through", "%s: plain alert changed\n%s", desc, diffLines(w, g))
	}
}

func soName(i int) string {
	if i < 0 {
		return "<none>"
	}
	return c17SortOrders[i]
}

func c17Mixed(c *Ctx) {
	policy := policies[c.Free("policy", len(policies))]
	useStation := c.Free("inform_using_station_ids", 2) == 1
	skip := c.Free("skip_timetabled_no_service", 2) == 1
	meta := c.Free("add_metadata", 2) == 1
	seq := []elevAlert{elevFromIndex(c.Free("elev[0]", 12)), elevFromIndex(c.Free("elev[1]", 12))}
	// the elevator alerts' own informed entities may carry a Mercury priority (a timetabled one, or another)
	c17ElevatorSortOrder = []string{"", "MTASBWY:A27:3", "MTASBWY:A27:29"}[c.Free("elevator_entities_carry_a_mercury_priority", 3)]
	defer func() { c17ElevatorSortOrder = "" }()
	s := mercurySpec{prio1: []int{29, 2, -1}[c.Free("priority", 3)], prio2: -2, prefix: c.Free("id_prefix", 3), hasExt: c.Free("mercury_alert_extension", 2) == 1, skip: skip, meta: meta}
	m := newFeed(cp(&tsAlphabet[0]))
	ents := []*gtfsrt.FeedEntity{elevEntity(seq[0], 0), c17MercuryEntity(c, s), elevEntity(seq[1], 1), plainAlertEntity("plain-1"),
		{Id: sp("tu"), TripUpdate: &gtfsrt.TripUpdate{Trip: &gtfsrt.TripDescriptor{TripId: sp("T1")}}}}
	perm := [][]int{{0, 1, 2, 3, 4}, {4, 3, 2, 1, 0}, {1, 0, 3, 2, 4}}[c.Free("order", 3)]
	for _, i := range perm {
		m.Entity = append(m.Entity, ents[i])
	}
	// the elevator sequence in feed order
	var feedSeq []elevAlert
	for _, i := range perm {
		if i == 0 {
			feedSeq = append(feedSeq, seq[0])
		}
		if i == 2 {
			feedSeq = append(feedSeq, seq[1])
		}
	}
	opts := nyctalerts.ExtensionOpts{ElevatorAlertsDeduplicationPolicy: policy, ElevatorAlertsInformUsingStationIDs: useStation, SkipTimetabledNoServiceAlerts: skip, AddNyctMetadata: meta}
	desc := fmt.Sprintf("opts=%+v elevators=%v (sort order %q) mercury=%+v order=%v", opts, []string{seq[0].id(), seq[1].id()}, c17ElevatorSortOrder, s, perm)
	b := marshalFeed(m)
	c.Input(hash64(string(b)+desc), true, func() string { return desc + "\n" + feedText(m) })
	r, err, ok := parseRT(c, b, &gtfs.ParseRealtimeOptions{Extension: nyctalerts.Extension(opts)})
	if !ok {
		return
	}
	plain, err2, ok2 := parseRT(c, b, &gtfs.ParseRealtimeOptions{})
	if !ok2 || err2 != nil {
		harnessBug("plain parse: %v", err2)
	}
	c.Steps(len(m.Entity) * 2)
	if err != nil {
		c.Fail("valid-message-rejected", "%v", err)
		return
	}
	c17CheckElevators(c, r, feedSeq, policy, useStation, desc)
	c17CheckMercury(c, r, plain, s, c17Prefixes[s.prefix], desc)
	// trips are untouched by the alerts extension
	if w, g := dumpRealtime(plain, rtDumpOpts{noAlerts: true, links: true}), dumpRealtime(r, rtDumpOpts{noAlerts: true, links: true}); w != g {
		c.Fail("pass-through:trips", "%s: trips/vehicles changed\n%s", desc, diffLines(w, g))
	}
}

func init() {
	register(&Check{
		ID:    "C17",
		Level: "model_checking",
		Rule: "(1) all sequences with repetition of <= 3 (thorough <= 5) elevator alerts over 12 ids (stations A27 / E01, or N04 / S04 whose ids begin with a direction letter) x position of an optional plain alert x 4 policies (incl. the zero value) x station-id flag x {first parse, second parse with the same extension value}; (2) every Mercury priority 1..40 (route-level sort orders; on a route, a stop or an agency-only selector) + agency-level and stop-level sort orders (one and three id segments) + 6 unknown/malformed/absent sort orders x second selector {none, same, DELAYS, NO_OVERNIGHT} x 3 id prefixes x Mercury alert extension x own cause/effect x skip x metadata; (3) mixed feeds (2 elevator alerts, Mercury alert, plain alert, trip update) x 3 orders x all 24 option combinations; fresh extension per parse; " +
			"non-trivial = distinct (message, options); oracle = reference grouping / tables + differential against the extension-free parse",
		Assumptions: []string{"metadata is expected iff requested and the alert carries the Mercury alert extension", "with several different priorities in one alert the effect must be that of one of them (which one is unspecified); such an alert may be dropped when any of them is a timetabled no-service priority", "TZ=UTC so that the metadata JSON is reproducible"},
		Scenarios: func(tier string) []*Scenario {
			n := 3
			if tier == "thorough" {
				n = 5
			}
			return []*Scenario{{Name: fmt.Sprintf("elevator-sequences<=%d", n), Bound: -1, Run: c17Elevators(n)}, {Name: "mercury-product", Bound: -1, Run: c17Mercury}, {Name: "mixed-feeds", Bound: -1, Run: c17Mixed}}
		},
	})
}
