package main

// The wall clock as a choice point: the overlay built by setup.sh makes time.Now / Since / Until
// add an offset that only the checker sets. The harness never reads the clock while the offset
// is non-zero (deadlines are evaluated between executions; the watchdog uses runtime timers).

import (
	"time"
	_ "unsafe"
)

//go:linkname timeSetClockOffset time.verifSetClockOffset
func timeSetClockOffset(sec int64)

// withClockAt runs f with the wall clock showing (approximately) the instant at.
func withClockAt(at time.Time, f func()) {
	timeSetClockOffset(0)
	off := at.Unix() - time.Now().Unix()
	timeSetClockOffset(off)
	defer timeSetClockOffset(0)
	f()
}

// withClockAdvanced runs f with the clock sec seconds ahead of the real one.
func withClockAdvanced(sec int64, f func()) {
	timeSetClockOffset(sec)
	defer timeSetClockOffset(0)
	f()
}
