package main

// Canonical, line-oriented dumps of the library's result types. Pointers are followed;
// a cross reference is rendered by *identity*: "->Stops[2]" when the pointer is the address
// of that element of the result's own slice, "FOREIGN{...}" otherwise.

import (
	"fmt"
	"sort"
	"strconv"
	"strings"
	"time"
	"unsafe"

	"github.com/jamespfennell/gtfs"
	"github.com/jamespfennell/gtfs/journal"
)

func fmtTime(t time.Time) string {
	if ns := t.Nanosecond(); ns != 0 {
		return fmt.Sprintf("%d.%09d@%s%s", t.Unix(), ns, t.Location().String(), t.Format("-0700"))
	}
	return fmt.Sprintf("%d@%s%s", t.Unix(), t.Location().String(), t.Format("-0700"))
}

// fmtDur renders a duration exactly: whole seconds, and the remainder if there is one.
func fmtDur(d time.Duration) string {
	if r := d % time.Second; r != 0 {
		return fmt.Sprintf("%ds%+dns", int64(d/time.Second), int64(r))
	}
	return fmt.Sprintf("%ds", int64(d/time.Second))
}

func fmtTimePtr(t *time.Time) string {
	if t == nil {
		return "nil"
	}
	return fmtTime(*t)
}

func fmtF64Ptr(p *float64) string {
	if p == nil {
		return "nil"
	}
	return strconv.FormatFloat(*p, 'g', -1, 64)
}

func fmtF32Ptr(p *float32) string {
	if p == nil {
		return "nil"
	}
	return strconv.FormatFloat(float64(*p), 'g', -1, 32)
}

func fmtI32Ptr(p *int32) string {
	if p == nil {
		return "nil"
	}
	return strconv.Itoa(int(*p))
}

func fmtU32Ptr(p *uint32) string {
	if p == nil {
		return "nil"
	}
	return strconv.FormatUint(uint64(*p), 10)
}

func fmtStrPtr(p *string) string {
	if p == nil {
		return "nil"
	}
	return strconv.Quote(*p)
}

func fmtDurPtr(p *time.Duration) string {
	if p == nil {
		return "nil"
	}
	return fmt.Sprintf("%dns", int64(*p))
}

// ---------------------------------------------------------------------------------------
// realtime

func dumpTripID(id gtfs.TripID) string {
	sd := "-"
	if id.HasStartDate || !id.StartDate.IsZero() {
		sd = fmtTime(id.StartDate)
	}
	return fmt.Sprintf("{id=%q route=%q dir=%s hasST=%v st=%s hasSD=%v sd=%s sr=%d}", id.ID, id.RouteID, id.DirectionID, id.HasStartTime,
		fmtDur(id.StartTime), id.HasStartDate, sd, int32(id.ScheduleRelationship))
}

func dumpEvent(e *gtfs.StopTimeEvent) string {
	if e == nil {
		return "nil"
	}
	return fmt.Sprintf("{t=%s d=%s u=%s}", fmtTimePtr(e.Time), fmtDurPtr(e.Delay), fmtI32Ptr(e.Uncertainty))
}

func dumpVehicleID(id *gtfs.VehicleID) string {
	if id == nil {
		return "nil"
	}
	return fmt.Sprintf("{id=%q label=%q plate=%q}", id.ID, id.Label, id.LicensePlate)
}

// dumpTripBody renders a trip without its Vehicle link.
func dumpTripBody(t *gtfs.Trip) string {
	var sb strings.Builder
	fmt.Fprintf(&sb, "Trip ID%s inMsg=%v", dumpTripID(t.ID), t.IsEntityInMessage)
	for i := range t.StopTimeUpdates {
		u := &t.StopTimeUpdates[i]
		fmt.Fprintf(&sb, "\n  STU[%d] seq=%s stop=%s arr=%s dep=%s track=%s sr=%d", i, fmtU32Ptr(u.StopSequence), fmtStrPtr(u.StopID),
			dumpEvent(u.Arrival), dumpEvent(u.Departure), fmtStrPtr(u.NyctTrack), int32(u.ScheduleRelationship))
	}
	return sb.String()
}

// dumpVehicleBody renders a vehicle without its Trip link.
func dumpVehicleBody(v *gtfs.Vehicle) string {
	pos := "nil"
	if p := v.Position; p != nil {
		pos = fmt.Sprintf("{lat=%s lon=%s bearing=%s odo=%s speed=%s}", fmtF32Ptr(p.Latitude), fmtF32Ptr(p.Longitude), fmtF32Ptr(p.Bearing), fmtF64Ptr(p.Odometer), fmtF32Ptr(p.Speed))
	}
	cs, occ := "nil", "nil"
	if v.CurrentStatus != nil {
		cs = strconv.Itoa(int(*v.CurrentStatus))
	}
	if v.OccupancyStatus != nil {
		occ = strconv.Itoa(int(*v.OccupancyStatus))
	}
	return fmt.Sprintf("Vehicle ID%s inMsg=%v pos=%s css=%s stop=%s status=%s ts=%s cong=%d occ=%s occp=%s", dumpVehicleID(v.ID), v.IsEntityInMessage, pos,
		fmtU32Ptr(v.CurrentStopSequence), fmtStrPtr(v.StopID), cs, fmtTimePtr(v.Timestamp), int32(v.CongestionLevel), occ, fmtU32Ptr(v.OccupancyPercentage))
}

func dumpAlert(a *gtfs.Alert) string {
	var sb strings.Builder
	fmt.Fprintf(&sb, "Alert id=%q cause=%d effect=%d", a.ID, int32(a.Cause), int32(a.Effect))
	for i, p := range a.ActivePeriods {
		fmt.Fprintf(&sb, "\n  Period[%d] %s..%s", i, fmtTimePtr(p.StartsAt), fmtTimePtr(p.EndsAt))
	}
	for i, e := range a.InformedEntities {
		fmt.Fprintf(&sb, "\n  Informed[%d] %s", i, dumpInformed(e))
	}
	texts := func(name string, ts []gtfs.AlertText) {
		for i, t := range ts {
			fmt.Fprintf(&sb, "\n  %s[%d] %q/%q", name, i, t.Text, t.Language)
		}
	}
	texts("Header", a.Header)
	texts("Description", a.Description)
	texts("URL", a.URL)
	return sb.String()
}

func dumpInformed(e gtfs.AlertInformedEntity) string {
	trip := "nil"
	if e.TripID != nil {
		trip = dumpTripID(*e.TripID)
	}
	return fmt.Sprintf("agency=%s route=%s type=%d dir=%s trip=%s stop=%s", fmtStrPtr(e.AgencyID), fmtStrPtr(e.RouteID), int32(e.RouteType), e.DirectionID, trip, fmtStrPtr(e.StopID))
}

type rtDumpOpts struct {
	links        bool // render Trip.Vehicle / Vehicle.Trip (by the identifier of what they reach)
	sortVehicles bool // compare vehicles as a multiset
	sortTrips    bool // compare trips as a multiset
	noAlerts     bool
}

func dumpRealtime(r *gtfs.Realtime, o rtDumpOpts) string {
	var sb strings.Builder
	fmt.Fprintf(&sb, "CreatedAt=%s\n", fmtTime(r.CreatedAt))
	var ts []string
	for i := range r.Trips {
		t := &r.Trips[i]
		s := dumpTripBody(t)
		if o.links {
			if t.Vehicle == nil {
				s += "\n  vehicle=nil"
			} else {
				s += "\n  vehicle=>" + dumpVehicleID(t.Vehicle.ID)
			}
		}
		ts = append(ts, s)
	}
	if o.sortTrips {
		sort.Strings(ts)
	}
	for _, s := range ts {
		sb.WriteString(s + "\n")
	}
	var vs []string
	for i := range r.Vehicles {
		v := &r.Vehicles[i]
		s := dumpVehicleBody(v)
		if o.links {
			if v.Trip == nil {
				s += "\n  trip=nil"
			} else {
				s += "\n  trip=>" + dumpTripID(v.Trip.ID)
			}
		}
		vs = append(vs, s)
	}
	if o.sortVehicles {
		sort.Strings(vs)
	}
	for _, s := range vs {
		sb.WriteString(s + "\n")
	}
	if !o.noAlerts {
		for i := range r.Alerts {
			sb.WriteString(dumpAlert(&r.Alerts[i]) + "\n")
		}
	}
	return sb.String()
}

// ---------------------------------------------------------------------------------------
// static

type staticDumpOpts struct {
	sortServices bool // Services compared as a set (their order is C06's business)
	noWarnings   bool
	byID         bool // name reference targets by id instead of index (row-permutation comparisons)
}

type staticRefs struct {
	s *gtfs.Static
	o staticDumpOpts
}

func inSlice(p unsafe.Pointer, base unsafe.Pointer, n int, size uintptr) int {
	if n == 0 || p == nil {
		return -1
	}
	d := uintptr(p) - uintptr(base)
	if uintptr(p) < uintptr(base) || d%size != 0 || int(d/size) >= n {
		return -1
	}
	return int(d / size)
}

func (r staticRefs) agency(p *gtfs.Agency) string {
	if p == nil {
		return "nil"
	}
	var base unsafe.Pointer
	if len(r.s.Agencies) > 0 {
		base = unsafe.Pointer(&r.s.Agencies[0])
	}
	if i := inSlice(unsafe.Pointer(p), base, len(r.s.Agencies), unsafe.Sizeof(gtfs.Agency{})); i >= 0 {
		if r.o.byID {
			return fmt.Sprintf("->Agencies[id=%q]", p.Id)
		}
		return fmt.Sprintf("->Agencies[%d]", i)
	}
	return fmt.Sprintf("FOREIGN{Agency id=%q}", p.Id)
}

func (r staticRefs) stopIndex(p *gtfs.Stop) int {
	var base unsafe.Pointer
	if len(r.s.Stops) > 0 {
		base = unsafe.Pointer(&r.s.Stops[0])
	}
	return inSlice(unsafe.Pointer(p), base, len(r.s.Stops), unsafe.Sizeof(gtfs.Stop{}))
}

func (r staticRefs) stop(p *gtfs.Stop) string {
	if p == nil {
		return "nil"
	}
	if i := r.stopIndex(p); i >= 0 {
		if r.o.byID {
			return fmt.Sprintf("->Stops[id=%q]", p.Id)
		}
		return fmt.Sprintf("->Stops[%d]", i)
	}
	return fmt.Sprintf("FOREIGN{Stop id=%q}", p.Id)
}

func (r staticRefs) routeIndex(p *gtfs.Route) int {
	var base unsafe.Pointer
	if len(r.s.Routes) > 0 {
		base = unsafe.Pointer(&r.s.Routes[0])
	}
	return inSlice(unsafe.Pointer(p), base, len(r.s.Routes), unsafe.Sizeof(gtfs.Route{}))
}

func (r staticRefs) route(p *gtfs.Route) string {
	if p == nil {
		return "nil"
	}
	if i := r.routeIndex(p); i >= 0 {
		if r.o.byID {
			return fmt.Sprintf("->Routes[id=%q]", p.Id)
		}
		return fmt.Sprintf("->Routes[%d]", i)
	}
	return fmt.Sprintf("FOREIGN{Route id=%q}", p.Id)
}

func (r staticRefs) serviceIndex(p *gtfs.Service) int {
	var base unsafe.Pointer
	if len(r.s.Services) > 0 {
		base = unsafe.Pointer(&r.s.Services[0])
	}
	return inSlice(unsafe.Pointer(p), base, len(r.s.Services), unsafe.Sizeof(gtfs.Service{}))
}

func (r staticRefs) service(p *gtfs.Service) string {
	if p == nil {
		return "nil"
	}
	if i := r.serviceIndex(p); i >= 0 {
		if r.o.byID || r.o.sortServices {
			return fmt.Sprintf("->Services[id=%q]", p.Id)
		}
		return fmt.Sprintf("->Services[%d]", i)
	}
	return fmt.Sprintf("FOREIGN{Service id=%q}", p.Id)
}

func (r staticRefs) shapeIndex(p *gtfs.Shape) int {
	var base unsafe.Pointer
	if len(r.s.Shapes) > 0 {
		base = unsafe.Pointer(&r.s.Shapes[0])
	}
	return inSlice(unsafe.Pointer(p), base, len(r.s.Shapes), unsafe.Sizeof(gtfs.Shape{}))
}

func (r staticRefs) shape(p *gtfs.Shape) string {
	if p == nil {
		return "nil"
	}
	if i := r.shapeIndex(p); i >= 0 {
		if r.o.byID {
			return fmt.Sprintf("->Shapes[id=%q]", p.ID)
		}
		return fmt.Sprintf("->Shapes[%d]", i)
	}
	return fmt.Sprintf("FOREIGN{Shape id=%q}", p.ID)
}

func (r staticRefs) tripIndex(p *gtfs.ScheduledTrip) int {
	var base unsafe.Pointer
	if len(r.s.Trips) > 0 {
		base = unsafe.Pointer(&r.s.Trips[0])
	}
	return inSlice(unsafe.Pointer(p), base, len(r.s.Trips), unsafe.Sizeof(gtfs.ScheduledTrip{}))
}

func (r staticRefs) trip(p *gtfs.ScheduledTrip) string {
	if p == nil {
		return "nil"
	}
	if i := r.tripIndex(p); i >= 0 {
		if r.o.byID {
			return fmt.Sprintf("->Trips[id=%q]", p.ID)
		}
		return fmt.Sprintf("->Trips[%d]", i)
	}
	return fmt.Sprintf("FOREIGN{Trip id=%q}", p.ID)
}

func dumpService(sv *gtfs.Service) string {
	var sb strings.Builder
	fmt.Fprintf(&sb, "Service id=%q days=%v%v%v%v%v%v%v start=%s end=%s", sv.Id, b01(sv.Monday), b01(sv.Tuesday), b01(sv.Wednesday), b01(sv.Thursday),
		b01(sv.Friday), b01(sv.Saturday), b01(sv.Sunday), fmtTime(sv.StartDate), fmtTime(sv.EndDate))
	for i, d := range sv.AddedDates {
		fmt.Fprintf(&sb, "\n  Added[%d] %s", i, fmtTime(d))
	}
	for i, d := range sv.RemovedDates {
		fmt.Fprintf(&sb, "\n  Removed[%d] %s", i, fmtTime(d))
	}
	return sb.String()
}

func b01(b bool) int {
	if b {
		return 1
	}
	return 0
}

func dumpStatic(s *gtfs.Static, o staticDumpOpts) string {
	r := staticRefs{s, o}
	var sb strings.Builder
	for i := range s.Agencies {
		a := &s.Agencies[i]
		fmt.Fprintf(&sb, "Agency[%d] id=%q name=%q url=%q tz=%q lang=%q phone=%q fare=%q email=%q\n", i, a.Id, a.Name, a.Url, a.Timezone, a.Language, a.Phone, a.FareUrl, a.Email)
	}
	for i := range s.Routes {
		x := &s.Routes[i]
		fmt.Fprintf(&sb, "Route[%d] id=%q agency=%s color=%q text=%q short=%q long=%q desc=%q type=%d url=%q sort=%s cpickup=%d cdropoff=%d\n", i, x.Id, r.agency(x.Agency),
			x.Color, x.TextColor, x.ShortName, x.LongName, x.Description, int32(x.Type), x.Url, fmtI32Ptr(x.SortOrder), int32(x.ContinuousPickup), int32(x.ContinuousDropOff))
	}
	for i := range s.Stops {
		x := &s.Stops[i]
		fmt.Fprintf(&sb, "Stop[%d] id=%q code=%q name=%q desc=%q zone=%q lon=%s lat=%s url=%q type=%d parent=%s tz=%q wb=%d platform=%q\n", i, x.Id, x.Code, x.Name, x.Description,
			x.ZoneId, fmtF64Ptr(x.Longitude), fmtF64Ptr(x.Latitude), x.Url, int32(x.Type), r.stop(x.Parent), x.Timezone, int32(x.WheelchairBoarding), x.PlatformCode)
	}
	for i := range s.Transfers {
		x := &s.Transfers[i]
		fmt.Fprintf(&sb, "Transfer[%d] from=%s to=%s type=%d min=%s\n", i, r.stop(x.From), r.stop(x.To), int32(x.Type), fmtI32Ptr(x.MinTransferTime))
	}
	var svs []string
	for i := range s.Services {
		svs = append(svs, dumpService(&s.Services[i]))
	}
	if o.sortServices {
		sort.Strings(svs)
	}
	for _, x := range svs {
		sb.WriteString(x + "\n")
	}
	for i := range s.Trips {
		x := &s.Trips[i]
		fmt.Fprintf(&sb, "Trip[%d] id=%q route=%s service=%s headsign=%q short=%q dir=%s block=%q wa=%d bikes=%d shape=%s\n", i, x.ID, r.route(x.Route), r.service(x.Service),
			x.Headsign, x.ShortName, x.DirectionId, x.BlockID, int32(x.WheelchairAccessible), int32(x.BikesAllowed), r.shape(x.Shape))
		for j := range x.StopTimes {
			st := &x.StopTimes[j]
			fmt.Fprintf(&sb, "  StopTime[%d] trip=%s stop=%s arr=%s dep=%s seq=%d headsign=%q pickup=%d dropoff=%d cpickup=%d cdropoff=%d dist=%s exact=%v\n", j, r.trip(st.Trip), r.stop(st.Stop),
				fmtDur(st.ArrivalTime), fmtDur(st.DepartureTime), st.StopSequence, st.Headsign, int32(st.PickupType), int32(st.DropOffType),
				int32(st.ContinuousPickup), int32(st.ContinuousDropOff), fmtF64Ptr(st.ShapeDistanceTraveled), st.ExactTimes)
		}
		for j, f := range x.Frequencies {
			fmt.Fprintf(&sb, "  Frequency[%d] start=%s end=%s headway=%s exact=%d\n", j, fmtDur(f.StartTime), fmtDur(f.EndTime), fmtDur(f.Headway), int32(f.ExactTimes))
		}
	}
	for i := range s.Shapes {
		x := &s.Shapes[i]
		fmt.Fprintf(&sb, "Shape[%d] id=%q\n", i, x.ID)
		for j, p := range x.Points {
			fmt.Fprintf(&sb, "  Point[%d] lat=%s lon=%s dist=%s\n", j, strconv.FormatFloat(p.Latitude, 'g', -1, 64), strconv.FormatFloat(p.Longitude, 'g', -1, 64), fmtF64Ptr(p.Distance))
		}
	}
	if !o.noWarnings {
		for i, w := range s.Warnings {
			fmt.Fprintf(&sb, "Warning[%d] file=%q row=%d content=%q header=%q kind=%T %v\n", i, string(w.File), w.RowNumber, w.RowContent, w.HeaderContent, w.Kind, w.Kind)
		}
	}
	return sb.String()
}

// ---------------------------------------------------------------------------------------
// journal

func dumpJournalStopTime(st *journal.StopTime) string {
	return fmt.Sprintf("stop=%q arr=%s dep=%s track=%s lastObserved=%s markedPast=%s", st.StopID, fmtTimePtr(st.ArrivalTime), fmtTimePtr(st.DepartureTime), fmtStrPtr(st.Track),
		fmtTime(st.LastObserved), fmtTimePtr(st.MarkedPast))
}

func dumpJournalTrip(t *journal.Trip, withCounters bool) string {
	var sb strings.Builder
	fmt.Fprintf(&sb, "JTrip uid=%q id=%q route=%q dir=%s start=%s vehicle=%q assigned=%v lastObserved=%s markedPast=%s updates=%d", t.TripUID, t.TripID, t.RouteID, t.DirectionID,
		fmtTime(t.StartTime), t.VehicleID, t.IsAssigned, fmtTime(t.LastObserved), fmtTimePtr(t.MarkedPast), t.NumUpdates)
	if withCounters {
		fmt.Fprintf(&sb, " changes=%d rewrites=%d", t.NumScheduleChanges, t.NumScheduleRewrites)
	}
	for i := range t.StopTimes {
		fmt.Fprintf(&sb, "\n  JStopTime[%d] %s", i, dumpJournalStopTime(&t.StopTimes[i]))
	}
	return sb.String()
}

func dumpJournal(j *journal.Journal) string {
	var sb strings.Builder
	for i := range j.Trips {
		sb.WriteString(dumpJournalTrip(&j.Trips[i], true) + "\n")
	}
	return sb.String()
}

// diffLines returns a short description of the first differences between two dumps.
func diffLines(want, got string) string {
	w := strings.Split(want, "\n")
	g := strings.Split(got, "\n")
	var sb strings.Builder
	n := 0
	for i := 0; i < len(w) || i < len(g); i++ {
		var a, b string
		if i < len(w) {
			a = w[i]
		}
		if i < len(g) {
			b = g[i]
		}
		if a != b {
			fmt.Fprintf(&sb, "line %d:\n  want: %s\n  got:  %s\n", i+1, a, b)
			n++
			if n >= 6 {
				sb.WriteString("…\n")
				break
			}
		}
	}
	return sb.String()
}

// firstDiffKind names the kind of the first differing line of two dumps (its first word,
// indices removed), used to build violation signatures.
func firstDiffKind(want, got string) string {
	w := strings.Split(want, "\n")
	g := strings.Split(got, "\n")
	for i := 0; i < len(w) || i < len(g); i++ {
		var a, b string
		if i < len(w) {
			a = w[i]
		}
		if i < len(g) {
			b = g[i]
		}
		if a != b {
			l := a
			if l == "" {
				l = b
			}
			l = strings.TrimSpace(l)
			if j := strings.IndexAny(l, " =["); j > 0 {
				l = l[:j]
			}
			return l
		}
	}
	return "none"
}

func containsAny(s string, sub string) bool { return strings.Contains(s, sub) }

// firstDiffField returns the name of the first differing key=value token of the first
// differing line of two dumps.
func firstDiffField(want, got string) string {
	w := strings.Split(want, "\n")
	g := strings.Split(got, "\n")
	for i := 0; i < len(w) && i < len(g); i++ {
		if w[i] == g[i] {
			continue
		}
		a, b := strings.Fields(w[i]), strings.Fields(g[i])
		for j := 0; j < len(a) && j < len(b); j++ {
			if a[j] != b[j] {
				t := a[j]
				if k := strings.Index(t, "="); k > 0 {
					return t[:k]
				}
				// a bare value (e.g. a date of an Added[..] line): name the line kind instead
				return "value"
			}
		}
		return "line"
	}
	return "count"
}
