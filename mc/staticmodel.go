package main

// Static feed model: tables of text cells, a renderer (model x presentation -> zip bytes)
// and a reference interpretation refStatic(model, opts) written from the property statements
// and the GTFS reference (defaults), independent of static.go / csv.go / enums.go - it
// shares only the exported result types.

import (
	"archive/zip"
	"bytes"
	"fmt"
	"sort"
	"strconv"
	"strings"
	"time"

	"github.com/jamespfennell/gtfs"
)

type table struct {
	File string
	Cols []string
	Rows [][]string
	// Short: data rows written with fewer cells than the header (row index -> number of cells kept);
	// the model cells beyond that are blank. Most CSV readers reject such a file; one that tolerates it
	// must read the missing cells as absent.
	Short map[int]int
}

func (t *table) col(name string) int {
	for i, c := range t.Cols {
		if c == name {
			return i
		}
	}
	return -1
}

// get returns the cell and whether the column exists.
func (t *table) get(row int, name string) (string, bool) {
	i := t.col(name)
	if i < 0 {
		return "", false
	}
	return t.Rows[row][i], true
}

func (t *table) set(row int, name, v string) {
	i := t.col(name)
	if i < 0 {
		harnessBug("no column %s in %s", name, t.File)
	}
	t.Rows[row][i] = v
}

func (t *table) dropCol(name string) {
	i := t.col(name)
	if i < 0 {
		return
	}
	t.Cols = append(append([]string{}, t.Cols[:i]...), t.Cols[i+1:]...)
	for r := range t.Rows {
		t.Rows[r] = append(append([]string{}, t.Rows[r][:i]...), t.Rows[r][i+1:]...)
	}
}

func (t *table) clone() *table {
	n := &table{File: t.File, Cols: append([]string{}, t.Cols...)}
	if t.Short != nil {
		n.Short = map[int]int{}
		for k, v := range t.Short {
			n.Short[k] = v
		}
	}
	for _, r := range t.Rows {
		n.Rows = append(n.Rows, append([]string{}, r...))
	}
	return n
}

type feedModel struct {
	Tables []*table // in the order they are written to the archive
}

func (m *feedModel) t(file string) *table {
	for _, t := range m.Tables {
		if t.File == file {
			return t
		}
	}
	return nil
}

func (m *feedModel) clone() *feedModel {
	n := &feedModel{}
	for _, t := range m.Tables {
		n.Tables = append(n.Tables, t.clone())
	}
	return n
}

func (m *feedModel) text() string {
	var sb strings.Builder
	for _, t := range m.Tables {
		fmt.Fprintf(&sb, "== %s\n%s\n", t.File, strings.Join(t.Cols, ","))
		for _, r := range t.Rows {
			q := make([]string, len(r))
			for i, c := range r {
				q[i] = csvField(c, false)
			}
			sb.WriteString(strings.Join(q, ",") + "\n")
		}
	}
	return sb.String()
}

// ---------------------------------------------------------------------------------------
// renderer

type presentation struct {
	ColOrder     int  // 0 identity, 1 reversed, 2 rotated by one
	ExtraCol     int  // 0 none, 1 first, 2 middle, 3 last, 4: seventy unknown columns first (every known column beyond index 64), 5: two unknown columns sharing one name, last
	ExtraFile    bool // an unknown member in the archive
	ReverseFiles bool
	Deflate      bool
	BOM          bool
	CRLF         bool
	NoTrailingNL bool
	QuoteAll     bool
	BlankLines   bool // an empty line after the header and between rows (skipped by CSV readers, not a row)
}

func (p presentation) String() string {
	return fmt.Sprintf("presentation{colOrder=%d extraCol=%d extraFile=%v reverseFiles=%v deflate=%v bom=%v crlf=%v noTrailingNL=%v quoteAll=%v}",
		p.ColOrder, p.ExtraCol, p.ExtraFile, p.ReverseFiles, p.Deflate, p.BOM, p.CRLF, p.NoTrailingNL, p.QuoteAll)
}

func csvField(s string, quoteAll bool) string {
	if quoteAll || strings.ContainsAny(s, ",\"\n\r") {
		return `"` + strings.ReplaceAll(s, `"`, `""`) + `"`
	}
	return s
}

func renderCSV(t *table, p presentation) []byte {
	cols := append([]string{}, t.Cols...)
	idx := make([]int, len(cols))
	for i := range idx {
		idx[i] = i
	}
	switch p.ColOrder {
	case 1:
		for i, j := 0, len(idx)-1; i < j; i, j = i+1, j-1 {
			idx[i], idx[j] = idx[j], idx[i]
		}
	case 2:
		if len(idx) > 1 {
			idx = append(idx[1:], idx[0])
		}
	}
	extraAt := -1
	nExtra := 1
	switch p.ExtraCol {
	case 5: // two unknown columns with the SAME name, last
		extraAt, nExtra = len(idx), 2
	case 6: // an unknown column in front whose cells are blank in every row
		extraAt = 0
	case 4:
		extraAt, nExtra = 0, 70
	case 1:
		extraAt = 0
	case 2:
		extraAt = len(idx) / 2
	case 3:
		extraAt = len(idx)
	}
	nl := "\n"
	if p.CRLF {
		nl = "\r\n"
	}
	var sb strings.Builder
	if p.BOM {
		sb.WriteString("\xEF\xBB\xBF")
	}
	line := func(cells func(i int) string, extra string) string {
		var f []string
		for k := 0; k <= len(idx); k++ {
			if k == extraAt {
				for x := 0; x < nExtra; x++ {
					e := extra
					if x > 0 && !(p.ExtraCol == 5 && extra == "x_unknown_column") {
						e = fmt.Sprintf("%s%d", extra, x) // header cells of option 5 keep the same name
					}
					f = append(f, csvField(e, p.QuoteAll))
				}
			}
			if k < len(idx) {
				f = append(f, csvField(cells(idx[k]), p.QuoteAll))
			}
		}
		return strings.Join(f, ",")
	}
	lines := []string{line(func(i int) string { return cols[i] }, "x_unknown_column")}
	for r, row := range t.Rows {
		row := row
		junk := fmt.Sprintf("junk %d, \"q\"", r)
		if p.ExtraCol == 6 {
			junk = ""
		}
		l := line(func(i int) string { return row[i] }, junk)
		if keep, ok := t.Short[r]; ok {
			// cut the rendered row after `keep` cells (only used with the default column order, no extra column, plain cells)
			l = strings.Join(strings.Split(l, ",")[:keep], ",")
		}
		lines = append(lines, l)
	}
	if p.BlankLines {
		sb.WriteString(strings.Join(lines, nl+nl))
	} else {
		sb.WriteString(strings.Join(lines, nl))
	}
	if !p.NoTrailingNL {
		sb.WriteString(nl)
	}
	return []byte(sb.String())
}

type rawMember struct {
	Name    string
	Content []byte
}

func buildZip(members []rawMember, deflate bool) []byte {
	var buf bytes.Buffer
	w := zip.NewWriter(&buf)
	for _, m := range members {
		method := zip.Store
		if deflate {
			method = zip.Deflate
		}
		f, err := w.CreateHeader(&zip.FileHeader{Name: m.Name, Method: method})
		if err != nil {
			harnessBug("zip: %v", err)
		}
		f.Write(m.Content)
	}
	if err := w.Close(); err != nil {
		harnessBug("zip: %v", err)
	}
	return buf.Bytes()
}

func renderFeed(m *feedModel, p presentation) []byte {
	var members []rawMember
	optional := map[string]bool{"transfers.txt": true, "calendar_dates.txt": true, "shapes.txt": true, "frequencies.txt": true}
	for _, t := range m.Tables {
		if p.ExtraFile && optional[t.File] && len(t.Rows) == 0 {
			// an optional table without rows is left out of the archive altogether: the members of the
			// same base name in the sub-folders below are then the only ones so called - and still not the table
			continue
		}
		members = append(members, rawMember{t.File, renderCSV(t, p)})
	}
	if p.ExtraFile {
		members = append(members, rawMember{"feed_info.txt", []byte("feed_publisher_name,feed_lang\nsomeone,en\n")}, rawMember{"stops.txt.bak", []byte("not,a,table\n")},
			// members in sub-folders whose base names are those of supported tables are unknown extra files too
			rawMember{"backup/", nil},
			rawMember{"backup/stops.txt", []byte("stop_id,stop_name\nOLD1,old stop\nOLD2,older stop\n")},
			rawMember{"backup/shapes.txt", []byte("shape_id,shape_pt_lat,shape_pt_lon,shape_pt_sequence\nOLDSHAPE,1,2,3\n")},
			rawMember{"drafts/calendar_dates.txt", []byte("service_id,date,exception_type\nDRAFTSERVICE,20240102,1\n")},
			rawMember{"old/agency.txt", []byte("agency_id,agency_name,agency_url,agency_timezone\nOLDA,old,http://old,Asia/Tokyo\n")},
			rawMember{"Stops.TXT", []byte("stop_id\nUPPER\n")})
	}
	if p.ReverseFiles {
		for i, j := 0, len(members)-1; i < j; i, j = i+1, j-1 {
			members[i], members[j] = members[j], members[i]
		}
	}
	return buildZip(members, p.Deflate)
}

// ---------------------------------------------------------------------------------------
// reference interpretation

// refDuration decodes H:MM:SS / HH:MM:SS (any number of hour digits).
func refDuration(s string) (time.Duration, bool) {
	p := strings.Split(strings.TrimSpace(s), ":")
	if len(p) != 3 {
		return 0, false
	}
	var v [3]int
	for i, x := range p {
		n, ok := atoiStrict(strings.TrimSpace(x))
		if !ok {
			return 0, false
		}
		v[i] = n
	}
	return time.Duration(v[0]*3600+v[1]*60+v[2]) * time.Second, true
}

func refDate(s string, tz *time.Location) (time.Time, bool) {
	if len(s) != 8 {
		return time.Time{}, false
	}
	v, ok := atoiStrict(s)
	if !ok {
		return time.Time{}, false
	}
	y, mo, d := v/10000, (v/100)%100, v%100
	if mo < 1 || mo > 12 || d < 1 || d > 31 {
		return time.Time{}, false
	}
	t := civilMidnight(y, mo, d, tz)
	if t.Day() != d || int(t.Month()) != mo {
		return time.Time{}, false // e.g. 20240231
	}
	return t, true
}

func refFloatPtr(s string) *float64 {
	s = strings.TrimSpace(s)
	if s == "" {
		return nil
	}
	f, err := strconv.ParseFloat(s, 64)
	if err != nil {
		return nil
	}
	return &f
}

func refInt32Ptr(s string) *int32 {
	if s == "" {
		return nil
	}
	i, err := strconv.ParseInt(s, 10, 32)
	if err != nil {
		return nil
	}
	v := int32(i)
	return &v
}

// refEnum maps a cell to an enum value: blank (or absent column) -> def, a listed digit ->
// its value, anything else -> def.
func refEnum(cell string, def int, allowed ...int) int {
	if cell == "" {
		return def
	}
	n, ok := atoiStrict(cell)
	if !ok {
		return def
	}
	for _, a := range allowed {
		if a == n {
			return n
		}
	}
	return def
}

type refStaticOpts struct {
	inherit bool
	// type3Extends: an exception row with an unsupported exception_type still widens the
	// date range of an existing service (the statement leaves this open)
	type3Extends bool
}

// refStatic interprets a feed model. It is written for well-formed feeds plus the
// documented defaults (blank = absent = GTFS default), one-sided arrival/departure,
// wheelchair inheritance and the calendar/calendar_dates merge. Rows with unresolvable
// required references or unparseable required values are dropped (they "contribute
// nothing").
func refStatic(m *feedModel, o refStaticOpts) *gtfs.Static {
	s := &gtfs.Static{}
	cell := func(t *table, r int, name string) string {
		v, _ := t.get(r, name)
		return v
	}
	tz := time.UTC
	if t := m.t("agency.txt"); t != nil {
		for r := range t.Rows {
			s.Agencies = append(s.Agencies, gtfs.Agency{Id: cell(t, r, "agency_id"), Name: cell(t, r, "agency_name"), Url: cell(t, r, "agency_url"), Timezone: cell(t, r, "agency_timezone"),
				Language: cell(t, r, "agency_lang"), Phone: cell(t, r, "agency_phone"), FareUrl: cell(t, r, "agency_fare_url"), Email: cell(t, r, "agency_email")})
		}
		if len(s.Agencies) > 0 {
			if l, err := time.LoadLocation(s.Agencies[0].Timezone); err == nil {
				tz = l
			}
		}
	}
	pd := func(cellv string, def int) gtfs.PickupDropOffPolicy {
		return gtfs.PickupDropOffPolicy(refEnum(cellv, def, 0, 1, 2, 3))
	}
	if t := m.t("routes.txt"); t != nil {
		for r := range t.Rows {
			rt := gtfs.Route{Id: cell(t, r, "route_id"), Color: cell(t, r, "route_color"), TextColor: cell(t, r, "route_text_color"), ShortName: cell(t, r, "route_short_name"),
				LongName: cell(t, r, "route_long_name"), Description: cell(t, r, "route_desc"), Url: cell(t, r, "route_url")}
			if rt.Color == "" {
				rt.Color = "FFFFFF"
			}
			if rt.TextColor == "" {
				rt.TextColor = "000000"
			}
			rt.Type = gtfs.RouteType(refEnum(cell(t, r, "route_type"), 10000, 0, 1, 2, 3, 4, 5, 6, 7, 11, 12))
			rt.SortOrder = refInt32Ptr(cell(t, r, "route_sort_order"))
			rt.ContinuousPickup = pd(cell(t, r, "continuous_pickup"), 1)
			rt.ContinuousDropOff = pd(cell(t, r, "continuous_drop_off"), 1)
			aid := cell(t, r, "agency_id")
			ai := -1
			if aid == "" {
				if len(s.Agencies) == 1 {
					ai = 0
				}
			} else {
				for i := range s.Agencies {
					if s.Agencies[i].Id == aid {
						ai = i
						break
					}
				}
			}
			if ai < 0 || rt.Id == "" || cell(t, r, "route_type") == "" {
				continue
			}
			rt.Agency = &s.Agencies[ai]
			s.Routes = append(s.Routes, rt)
		}
	}
	if t := m.t("stops.txt"); t != nil {
		var parents []string
		for r := range t.Rows {
			st := gtfs.Stop{Id: cell(t, r, "stop_id"), Code: cell(t, r, "stop_code"), Name: cell(t, r, "stop_name"), Description: cell(t, r, "stop_desc"), ZoneId: cell(t, r, "zone_id"),
				Longitude: refFloatPtr(cell(t, r, "stop_lon")), Latitude: refFloatPtr(cell(t, r, "stop_lat")), Url: cell(t, r, "stop_url"), Timezone: cell(t, r, "stop_timezone"),
				PlatformCode: cell(t, r, "platform_code")}
			if st.Id == "" {
				continue
			}
			st.WheelchairBoarding = gtfs.WheelchairBoarding(refEnum(cell(t, r, "wheelchair_boarding"), 0, 0, 1, 2))
			parent := cell(t, r, "parent_station")
			lt := refEnum(cell(t, r, "location_type"), 0, 0, 1, 2, 3, 4)
			st.Type = gtfs.StopType(lt)
			if lt == 0 && parent != "" {
				st.Type = gtfs.StopType_Platform
			}
			s.Stops = append(s.Stops, st)
			parents = append(parents, parent)
		}
		for i, p := range parents {
			if p == "" {
				continue
			}
			for j := range s.Stops {
				if s.Stops[j].Id == p {
					s.Stops[i].Parent = &s.Stops[j]
					break
				}
			}
		}
		if o.inherit {
			for i := range s.Stops {
				st := &s.Stops[i]
				if st.Parent != nil && st.Parent.Type == gtfs.StopType_Station && st.WheelchairBoarding == gtfs.WheelchairBoarding_NotSpecified {
					st.WheelchairBoarding = st.Parent.WheelchairBoarding
				}
			}
		}
	}
	findStop := func(id string) *gtfs.Stop {
		if id == "" {
			return nil
		}
		for j := range s.Stops {
			if s.Stops[j].Id == id {
				return &s.Stops[j]
			}
		}
		return nil
	}
	if t := m.t("transfers.txt"); t != nil {
		for r := range t.Rows {
			from, to := findStop(cell(t, r, "from_stop_id")), findStop(cell(t, r, "to_stop_id"))
			if from == nil || to == nil || from.Id == to.Id {
				continue
			}
			s.Transfers = append(s.Transfers, gtfs.Transfer{From: from, To: to, Type: gtfs.TransferType(refEnum(cell(t, r, "transfer_type"), 0, 0, 1, 2, 3)),
				MinTransferTime: refInt32Ptr(cell(t, r, "min_transfer_time"))})
		}
	}
	// services: calendar rows first, then exceptions in file order
	svcIdx := map[string]int{}
	if t := m.t("calendar.txt"); t != nil {
		for r := range t.Rows {
			id := cell(t, r, "service_id")
			sd, ok1 := refDate(cell(t, r, "start_date"), tz)
			ed, ok2 := refDate(cell(t, r, "end_date"), tz)
			if id == "" || !ok1 || !ok2 {
				continue
			}
			days := [7]bool{}
			bad := false
			for i, d := range []string{"monday", "tuesday", "wednesday", "thursday", "friday", "saturday", "sunday"} {
				v := cell(t, r, d)
				if v == "" {
					bad = true
				}
				days[i] = v == "1"
			}
			if bad {
				continue
			}
			sv := gtfs.Service{Id: id, Monday: days[0], Tuesday: days[1], Wednesday: days[2], Thursday: days[3], Friday: days[4], Saturday: days[5], Sunday: days[6], StartDate: sd, EndDate: ed}
			if i, ok := svcIdx[id]; ok {
				s.Services[i] = sv
			} else {
				svcIdx[id] = len(s.Services)
				s.Services = append(s.Services, sv)
			}
		}
	}
	if t := m.t("calendar_dates.txt"); t != nil {
		for r := range t.Rows {
			id := cell(t, r, "service_id")
			d, ok := refDate(cell(t, r, "date"), tz)
			et := cell(t, r, "exception_type")
			if id != "" && ok && et != "" && et != "1" && et != "2" && o.type3Extends {
				if i, exists := svcIdx[id]; exists {
					sv := &s.Services[i]
					if d.Before(sv.StartDate) {
						sv.StartDate = d
					}
					if sv.EndDate.Before(d) {
						sv.EndDate = d
					}
				}
			}
			if id == "" || !ok || (et != "1" && et != "2") {
				continue
			}
			i, exists := svcIdx[id]
			if !exists {
				i = len(s.Services)
				svcIdx[id] = i
				s.Services = append(s.Services, gtfs.Service{Id: id, StartDate: d, EndDate: d})
			}
			sv := &s.Services[i]
			if d.Before(sv.StartDate) {
				sv.StartDate = d
			}
			if sv.EndDate.Before(d) {
				sv.EndDate = d
			}
			if et == "1" {
				sv.AddedDates = append(sv.AddedDates, d)
			} else {
				sv.RemovedDates = append(sv.RemovedDates, d)
			}
		}
	}
	if t := m.t("shapes.txt"); t != nil {
		type pt struct {
			seq int32
			p   gtfs.ShapePoint
		}
		byID := map[string][]pt{}
		var ids []string
		for r := range t.Rows {
			id := cell(t, r, "shape_id")
			lat, lon, seq := refFloatPtr(cell(t, r, "shape_pt_lat")), refFloatPtr(cell(t, r, "shape_pt_lon")), refInt32Ptr(cell(t, r, "shape_pt_sequence"))
			if id == "" || lat == nil || lon == nil || seq == nil {
				continue
			}
			if _, ok := byID[id]; !ok {
				ids = append(ids, id)
			}
			byID[id] = append(byID[id], pt{*seq, gtfs.ShapePoint{Latitude: *lat, Longitude: *lon, Distance: refFloatPtr(cell(t, r, "shape_dist_traveled"))}})
		}
		sort.Strings(ids)
		for _, id := range ids {
			pts := byID[id]
			sort.SliceStable(pts, func(i, j int) bool { return pts[i].seq < pts[j].seq })
			sh := gtfs.Shape{ID: id}
			for _, p := range pts {
				sh.Points = append(sh.Points, p.p)
			}
			s.Shapes = append(s.Shapes, sh)
		}
	}
	if t := m.t("trips.txt"); t != nil {
		for r := range t.Rows {
			tr := gtfs.ScheduledTrip{ID: cell(t, r, "trip_id"), Headsign: cell(t, r, "trip_headsign"), ShortName: cell(t, r, "trip_short_name"), BlockID: cell(t, r, "block_id")}
			switch cell(t, r, "direction_id") {
			case "0":
				tr.DirectionId = gtfs.DirectionID_False
			case "1":
				tr.DirectionId = gtfs.DirectionID_True
			}
			tr.WheelchairAccessible = gtfs.WheelchairBoarding(refEnum(cell(t, r, "wheelchair_accessible"), 0, 0, 1, 2))
			tr.BikesAllowed = gtfs.BikesAllowed(refEnum(cell(t, r, "bikes_allowed"), 0, 0, 1, 2))
			for i := range s.Routes {
				if s.Routes[i].Id == cell(t, r, "route_id") {
					tr.Route = &s.Routes[i]
					break
				}
			}
			if i, ok := svcIdx[cell(t, r, "service_id")]; ok {
				tr.Service = &s.Services[i]
			}
			if sid := cell(t, r, "shape_id"); sid != "" {
				for i := range s.Shapes {
					if s.Shapes[i].ID == sid {
						tr.Shape = &s.Shapes[i]
					}
				}
			}
			if tr.ID == "" || tr.Route == nil || tr.Service == nil {
				continue
			}
			s.Trips = append(s.Trips, tr)
		}
	}
	findTrip := func(id string) *gtfs.ScheduledTrip {
		if id == "" {
			return nil
		}
		for i := range s.Trips {
			if s.Trips[i].ID == id {
				return &s.Trips[i]
			}
		}
		return nil
	}
	if t := m.t("frequencies.txt"); t != nil {
		for r := range t.Rows {
			tr := findTrip(cell(t, r, "trip_id"))
			st, ok1 := refDuration(cell(t, r, "start_time"))
			et, ok2 := refDuration(cell(t, r, "end_time"))
			hw := refInt32Ptr(cell(t, r, "headway_secs"))
			if tr == nil || !ok1 || !ok2 || hw == nil {
				continue
			}
			tr.Frequencies = append(tr.Frequencies, gtfs.Frequency{StartTime: st, EndTime: et, Headway: time.Duration(*hw) * time.Second, ExactTimes: gtfs.ExactTimes(refEnum(cell(t, r, "exact_times"), 0, 0, 1))})
		}
	}
	if t := m.t("stop_times.txt"); t != nil {
		for r := range t.Rows {
			tr := findTrip(cell(t, r, "trip_id"))
			stop := findStop(cell(t, r, "stop_id"))
			seq, err := strconv.Atoi(cell(t, r, "stop_sequence"))
			arr, aok := refDuration(cell(t, r, "arrival_time"))
			dep, dok := refDuration(cell(t, r, "departure_time"))
			if tr == nil || stop == nil || err != nil || (!aok && !dok) {
				continue
			}
			if !aok {
				arr = dep
			}
			if !dok {
				dep = arr
			}
			tp := cell(t, r, "timepoint")
			st := gtfs.ScheduledStopTime{Stop: stop, ArrivalTime: arr, DepartureTime: dep, StopSequence: seq, Headsign: cell(t, r, "stop_headsign"),
				PickupType: pd(cell(t, r, "pickup_type"), 0), DropOffType: pd(cell(t, r, "drop_off_type"), 0),
				ContinuousPickup: pd(cell(t, r, "continuous_pickup"), 1), ContinuousDropOff: pd(cell(t, r, "continuous_drop_off"), 1),
				ShapeDistanceTraveled: refFloatPtr(cell(t, r, "shape_dist_traveled")), ExactTimes: tp == "" || tp == "1"}
			tr.StopTimes = append(tr.StopTimes, st)
		}
		for i := range s.Trips {
			sts := s.Trips[i].StopTimes
			sort.SliceStable(sts, func(a, b int) bool { return sts[a].StopSequence < sts[b].StopSequence })
		}
	}
	return s
}

// parseStaticGuarded runs the real parser under guard.
func parseStaticGuarded(c *Ctx, b []byte, opts gtfs.ParseStaticOptions) (r *gtfs.Static, err error, ok bool) {
	pan, where, text, stack := guard(func() { r, err = gtfs.ParseStatic(b, opts) })
	if pan {
		c.Fail("panic:"+where+":"+text, "ParseStatic panicked: %s\n%s", text, stack)
		return nil, nil, false
	}
	return r, err, true
}
