package main

// C03 - static result is referentially closed; parents form a forest.
//
// Enumerated (any input, malformed included): full products, one table at a time with the
// others at base, of the reference-bearing cells over collision-forcing alphabets - stops:
// 0..3 (thorough 4) rows, stop_id in {"",S1,S2,S3} x parent_station in {"",S1,S2,S3,SX}
// (self, mutual and longer cycles, duplicates, blank ids, dangling parents, ids that differ only by a surrounding blank) x three rotations of every
// library map loop; routes x agencies (1 / 2 / duplicate-id agencies);
// trips (route, service, shape each in {"", known, known2, unknown}); stop_times; transfers.
// Then <= 2 deviations across all reference cells of a 3-row-per-table feed, and a growth
// sweep (1..40 rows per table) so that every result slice is re-allocated while pointers
// into it exist. Every row carries its row number in a free-text column, so each result
// entity says which row it came from and hence what that row asked for.
// Oracle (invariant; no expected value): every reference is nil only where optional, else
// pointer-identical to an element of the result's own slice whose id is the id the row named;
// a parent on a row that named none is a violation; the parent walk from every stop ends
// within len(Stops) steps (checked without calling Root(); if acyclic, Root() must agree).

import (
	"fmt"
	"strconv"
	"strings"

	"github.com/jamespfennell/gtfs"
)

func rowTag(i int) string { return fmt.Sprintf("row=%d", i) }

func parseRowTag(s string) int {
	if !strings.HasPrefix(s, "row=") {
		return -1
	}
	n, err := strconv.Atoi(s[4:])
	if err != nil {
		return -1
	}
	return n
}

// tagRows writes the row number into the free-text carrier column of the referring tables.
func tagRows(m *feedModel) {
	for file, col := range map[string]string{"stops.txt": "stop_desc", "routes.txt": "route_desc", "trips.txt": "trip_headsign", "stop_times.txt": "stop_headsign"} {
		t := m.t(file)
		for r := range t.Rows {
			t.set(r, col, rowTag(r))
		}
	}
	t := m.t("transfers.txt")
	for r := range t.Rows {
		t.set(r, "min_transfer_time", strconv.Itoa(r))
	}
}

// checkStaticRefs checks the C03 invariants of result r against what the rows of m named.
func checkStaticRefs(c *Ctx, r *gtfs.Static, m *feedModel) {
	refs := staticRefs{r, staticDumpOpts{}}
	named := func(file string, row int, col string) string {
		t := m.t(file)
		if t == nil || row < 0 || row >= len(t.Rows) {
			harnessBug("result entity of %s carries row tag %d which does not exist", file, row)
		}
		v, _ := t.get(row, col)
		return v
	}
	for i := range r.Routes {
		x := &r.Routes[i]
		row := parseRowTag(x.Description)
		want := named("routes.txt", row, "agency_id")
		if x.Agency == nil {
			continue // optional where GTFS makes it so (the library never does this today)
		}
		if !strings.HasPrefix(refs.agency(x.Agency), "->") {
			c.Fail("foreign-pointer:Route.Agency", "Routes[%d].Agency is not an element of Agencies: %s", i, refs.agency(x.Agency))
		} else if want != "" && x.Agency.Id != want {
			c.Fail("wrong-target:Route.Agency", "Routes[%d] (row %d) named agency %q, linked to %q", i, row, want, x.Agency.Id)
		} else if want == "" && len(r.Agencies) != 1 {
			c.Fail("wrong-target:Route.Agency", "Routes[%d] (row %d) named no agency and there are %d agencies, yet it is linked to %q", i, row, len(r.Agencies), x.Agency.Id)
		}
	}
	for i := range r.Stops {
		x := &r.Stops[i]
		row := parseRowTag(x.Description)
		want := named("stops.txt", row, "parent_station")
		if got := named("stops.txt", row, "stop_id"); got != x.Id {
			c.Fail("entity-row-mismatch:Stop", "Stops[%d] has id %q but carries the description of row %d whose id is %q", i, x.Id, row, got)
		}
		if x.Parent == nil {
			continue
		}
		if refs.stopIndex(x.Parent) < 0 {
			c.Fail("foreign-pointer:Stop.Parent", "Stops[%d].Parent is not an element of Stops", i)
		} else if want == "" {
			c.Fail("invented-link:Stop.Parent", "Stops[%d] (row %d, id %q) named no parent_station but has parent %q", i, row, x.Id, x.Parent.Id)
		} else if x.Parent.Id != want {
			c.Fail("wrong-target:Stop.Parent", "Stops[%d] (row %d) named parent %q, linked to %q", i, row, want, x.Parent.Id)
		}
	}
	// forest: walk without Root()
	acyclic := true
	for i := range r.Stops {
		p := &r.Stops[i]
		steps := 0
		for p.Parent != nil {
			p = p.Parent
			steps++
			if steps > len(r.Stops) {
				acyclic = false
				c.Fail("parent-cycle", "walking up from Stops[%d] (id %q) does not terminate: the stop hierarchy has a cycle, Stop.Root() would never return", i, r.Stops[i].Id)
				break
			}
		}
	}
	if acyclic {
		beforeRoot := dumpStatic(r, staticDumpOpts{noWarnings: true})
		defer func() {
			if after := dumpStatic(r, staticDumpOpts{noWarnings: true}); after != beforeRoot {
				c.Fail("root-modifies-result", "calling Stop.Root() changed the result\n%s", diffLines(beforeRoot, after))
			}
		}()
		for i := range r.Stops {
			p := &r.Stops[i]
			for p.Parent != nil {
				p = p.Parent
			}
			var root *gtfs.Stop
			pan, where, text, stack := guard(func() { root = r.Stops[i].Root() })
			if pan {
				c.Fail("panic:"+where+":"+text, "Root() panicked: %s\n%s", text, stack)
			} else if root != p {
				c.Fail("root-mismatch", "Stops[%d].Root() is not the top of its parent chain", i)
			}
		}
	}
	for i := range r.Transfers {
		x := &r.Transfers[i]
		row := -1
		if x.MinTransferTime != nil {
			row = int(*x.MinTransferTime)
		}
		for _, e := range []struct {
			name string
			p    *gtfs.Stop
			col  string
		}{{"From", x.From, "from_stop_id"}, {"To", x.To, "to_stop_id"}} {
			want := named("transfers.txt", row, e.col)
			if e.p == nil {
				c.Fail("nil-required:Transfer."+e.name, "Transfers[%d].%s is nil", i, e.name)
			} else if refs.stopIndex(e.p) < 0 {
				c.Fail("foreign-pointer:Transfer."+e.name, "Transfers[%d].%s is not an element of Stops", i, e.name)
			} else if e.p.Id != want {
				c.Fail("wrong-target:Transfer."+e.name, "Transfers[%d] (row %d) named %q, linked to %q", i, row, want, e.p.Id)
			}
		}
	}
	for i := range r.Trips {
		x := &r.Trips[i]
		row := parseRowTag(x.Headsign)
		if x.Route == nil {
			c.Fail("nil-required:Trip.Route", "Trips[%d].Route is nil", i)
		} else if refs.routeIndex(x.Route) < 0 {
			c.Fail("foreign-pointer:Trip.Route", "Trips[%d].Route is not an element of Routes", i)
		} else if want := named("trips.txt", row, "route_id"); x.Route.Id != want {
			c.Fail("wrong-target:Trip.Route", "Trips[%d] (row %d) named route %q, linked to %q", i, row, want, x.Route.Id)
		}
		if x.Service == nil {
			c.Fail("nil-required:Trip.Service", "Trips[%d].Service is nil", i)
		} else if refs.serviceIndex(x.Service) < 0 {
			c.Fail("foreign-pointer:Trip.Service", "Trips[%d].Service is not an element of Services", i)
		} else if want := named("trips.txt", row, "service_id"); x.Service.Id != want {
			c.Fail("wrong-target:Trip.Service", "Trips[%d] (row %d) named service %q, linked to %q", i, row, want, x.Service.Id)
		}
		wantShape := named("trips.txt", row, "shape_id")
		if x.Shape != nil {
			if refs.shapeIndex(x.Shape) < 0 {
				c.Fail("foreign-pointer:Trip.Shape", "Trips[%d].Shape is not an element of Shapes", i)
			} else if wantShape == "" {
				c.Fail("invented-link:Trip.Shape", "Trips[%d] (row %d) named no shape but has shape %q", i, row, x.Shape.ID)
			} else if x.Shape.ID != wantShape {
				c.Fail("wrong-target:Trip.Shape", "Trips[%d] (row %d) named shape %q, linked to %q", i, row, wantShape, x.Shape.ID)
			}
		}
		for j := range x.StopTimes {
			st := &x.StopTimes[j]
			srow := parseRowTag(st.Headsign)
			if want := named("stop_times.txt", srow, "trip_id"); want != x.ID {
				c.Fail("wrong-owner:StopTime", "Trips[%d] (id %q) holds the stop time of row %d which named trip %q", i, x.ID, srow, want)
			}
			if st.Stop == nil {
				c.Fail("nil-required:StopTime.Stop", "Trips[%d].StopTimes[%d].Stop is nil", i, j)
			} else if refs.stopIndex(st.Stop) < 0 {
				c.Fail("foreign-pointer:StopTime.Stop", "Trips[%d].StopTimes[%d].Stop is not an element of Stops", i, j)
			} else if want := named("stop_times.txt", srow, "stop_id"); st.Stop.Id != want {
				c.Fail("wrong-target:StopTime.Stop", "Trips[%d].StopTimes[%d] (row %d) named stop %q, linked to %q", i, j, srow, want, st.Stop.Id)
			}
			if st.Trip != nil && refs.tripIndex(st.Trip) < 0 {
				c.Fail("foreign-pointer:StopTime.Trip", "Trips[%d].StopTimes[%d].Trip is not an element of Trips", i, j)
			}
		}
	}
}

// c03WithOption: scenarios that also run under InheritWheelchairBoarding set this before c03Run
// (the option walks and reads the parent links the property is about).
var c03WithOption bool

func c03Run(c *Ctx, m *feedModel, nontrivial bool, desc string) {
	tagRows(m)
	b := renderFeed(m, presentation{})
	inherit := false
	if c03WithOption {
		c03WithOption = false
		inherit = c.Free("inherit_wheelchair_boarding", 2) == 1
		desc += fmt.Sprintf(" inherit=%v", inherit)
	}
	c.Input(hash64(string(b)+fmt.Sprint(inherit)), nontrivial, func() string { return desc + "\n" + m.text() })
	// every library map range starts at the same rotation (0, 1 or 2): each site sees every start
	// for maps of <= 3 entries, without multiplying the sites with each other
	c.SetMapRotation(c.Free("map_rotation", 3))
	r, err, ok := parseStaticGuarded(c, b, gtfs.ParseStaticOptions{InheritWheelchairBoarding: inherit})
	c.SetMapMode(mapFixed)
	if !ok {
		return
	}
	c.Steps(len(m.Tables))
	if err != nil {
		c.Witness("archive_rejected")
		return // the property is about results ParseStatic returns
	}
	c.Outcome(dumpStatic(r, staticDumpOpts{noWarnings: true}))
	checkStaticRefs(c, r, m)
}

func protoRow(t *table) []string { return append([]string{}, t.Rows[0]...) }

// c03StopsModel builds the stops product: n rows, each (stop_id, parent_station) over the
// collision alphabets.
func c03StopsModel(c *Ctx, maxRows int) (m *feedModel, n int, desc string) {
	ids := []string{"", "S1", "S2", "S3"}
	parents := []string{"", "S1", "S2", "S3", "SX", "S1 "}
	m = genStaticFeedN(c, false, baseCounts, nil, nil)
	t := m.t("stops.txt")
	p := protoRow(t)
	t.Rows = nil
	n = c.Free("stops.rows", maxRows+1)
	var d []string
	cyc, dup, blank := false, false, false
	seen := map[string]bool{}
	for r := 0; r < n; r++ {
		id := ids[c.Free(fmt.Sprintf("stops[%d].stop_id", r), len(ids))]
		par := parents[c.Free(fmt.Sprintf("stops[%d].parent_station", r), len(parents))]
		row := append([]string{}, p...)
		t.Rows = append(t.Rows, row)
		t.set(r, "stop_id", id)
		t.set(r, "parent_station", par)
		t.set(r, "location_type", "")
		d = append(d, fmt.Sprintf("(%q<-%q)", id, par))
		if id != "" && id == par {
			cyc = true
		}
		if id != "" && seen[id] {
			dup = true
		}
		if id == "" {
			blank = true
		}
		seen[id] = true
	}
	if cyc {
		c.Witness("self_parent")
	}
	if dup {
		c.Witness("duplicate_stop_ids")
	}
	if blank {
		c.Witness("blank_stop_id")
	}
	return m, n, "stops " + strings.Join(d, " ")
}

func c03Stops(maxRows int) Harness {
	return func(c *Ctx) {
		m, n, desc := c03StopsModel(c, maxRows)
		c03Run(c, m, n >= 2, desc)
	}
}

func c03Routes(maxRows int) Harness {
	return func(c *Ctx) {
		m := genStaticFeedN(c, false, baseCounts, nil, nil)
		at := m.t("agency.txt")
		pa := protoRow(at)
		cfg := [][]string{{"A"}, {"A", "B"}, {"A", "A"}, {"A", "B", "A"}, {""}, {"", "B"}, {"a", "A"}, {"A", "b"}}[c.Free("agencies", 8)]
		at.Rows = nil
		for i, id := range cfg {
			at.Rows = append(at.Rows, append([]string{}, pa...))
			at.set(i, "agency_id", id)
			at.set(i, "agency_name", fmt.Sprintf("agency %d", i))
		}
		rt := m.t("routes.txt")
		pr := protoRow(rt)
		rt.Rows = nil
		n := c.Free("routes.rows", maxRows+1)
		var desc []string
		for r := 0; r < n; r++ {
			a := []string{"", "A", "B", "AX", "A ", "a"}[c.Free(fmt.Sprintf("routes[%d].agency_id", r), 6)]
			rt.Rows = append(rt.Rows, append([]string{}, pr...))
			rt.set(r, "route_id", fmt.Sprintf("R%d", r+1))
			rt.set(r, "agency_id", a)
			desc = append(desc, fmt.Sprintf("%q", a))
		}
		c03Run(c, m, n >= 1, fmt.Sprintf("agencies %q routes->%s", cfg, strings.Join(desc, ",")))
	}
}

func c03Trips(maxRows int) Harness {
	return func(c *Ctx) {
		m := genStaticFeedN(c, false, baseCounts, nil, nil)
		t := m.t("trips.txt")
		p := protoRow(t)
		t.Rows = nil
		n := c.Free("trips.rows", maxRows+1)
		dupRoutes := c.Free("duplicate_route_ids", 2) == 1
		if dupRoutes {
			m.t("routes.txt").set(1, "route_id", "R1")
		}
		var desc []string
		// route_sort_order values that disagree with the file order: whatever order the routes come out in,
		// a trip leads to the route its row names
		if n <= 1 {
			if so := c.Free("route_sort_order", 3); so > 0 {
				rt := m.t("routes.txt")
				for r := range rt.Rows {
					rt.set(r, "route_sort_order", fmt.Sprint(30-10*r))
				}
				if so == 2 {
					rt.set(0, "route_sort_order", "")
				}
				desc = append(desc, fmt.Sprintf("sort orders descending (%d)", so))
			}
		}
		// three rows (thorough): the product over {known, blank, unknown} only - with all five values per cell it
		// alone would take longer than the time cap allows
		pick := []int{0, 1, 2, 3, 4}
		if n >= 3 {
			pick = []int{0, 1, 3}
		}
		for r := 0; r < n; r++ {
			route := []string{"R1", "", "R2", "RX", "R1 "}[pick[c.Free(fmt.Sprintf("trips[%d].route_id", r), len(pick))]]
			service := []string{"C1", "", "X1", "CX", " C1"}[pick[c.Free(fmt.Sprintf("trips[%d].service_id", r), len(pick))]]
			shape := []string{"SH1", "", "SH2", "SHX", "SH1 "}[pick[c.Free(fmt.Sprintf("trips[%d].shape_id", r), len(pick))]]
			t.Rows = append(t.Rows, append([]string{}, p...))
			t.set(r, "trip_id", fmt.Sprintf("T%d", r+1))
			t.set(r, "route_id", route)
			t.set(r, "service_id", service)
			t.set(r, "shape_id", shape)
			desc = append(desc, fmt.Sprintf("(%q,%q,%q)", route, service, shape))
		}
		c03Run(c, m, n >= 1, "trips "+strings.Join(desc, " "))
	}
}

func c03StopTimes(maxRows int) Harness {
	return func(c *Ctx) {
		m := genStaticFeedN(c, false, baseCounts, nil, nil)
		t := m.t("stop_times.txt")
		p := protoRow(t)
		t.Rows = nil
		n := c.Free("stop_times.rows", maxRows+1)
		if c.Free("duplicate_trip_ids", 2) == 1 {
			m.t("trips.txt").set(1, "trip_id", "T1")
		}
		// a stop whose id differs from S1 only by a trailing blank may or may not exist
		if c.Free("padded_stop_id_exists", 2) == 1 {
			m.t("stops.txt").set(2, "stop_id", "S1 ")
		}
		var desc []string
		for r := 0; r < n; r++ {
			trip := []string{"T1", "", "T2", "TX", "T1 "}[c.Free(fmt.Sprintf("stop_times[%d].trip_id", r), 5)]
			stop := []string{"S1", "", "SX", "S2", "S1 ", " S2"}[c.Free(fmt.Sprintf("stop_times[%d].stop_id", r), 6)]
			t.Rows = append(t.Rows, append([]string{}, p...))
			t.set(r, "trip_id", trip)
			t.set(r, "stop_id", stop)
			t.set(r, "stop_sequence", strconv.Itoa(10-r))
			desc = append(desc, fmt.Sprintf("(%q,%q)", trip, stop))
		}
		c03Run(c, m, n >= 2, "stop_times "+strings.Join(desc, " "))
	}
}

func c03Transfers(maxRows int) Harness {
	return func(c *Ctx) {
		m := genStaticFeedN(c, false, baseCounts, nil, nil)
		t := m.t("transfers.txt")
		p := protoRow(t)
		t.Rows = nil
		n := c.Free("transfers.rows", maxRows+1)
		if c.Free("duplicate_stop_ids", 2) == 1 {
			m.t("stops.txt").set(2, "stop_id", "S1")
		}
		var desc []string
		for r := 0; r < n; r++ {
			from := []string{"S1", "", "S2", "SX", "S1 "}[c.Free(fmt.Sprintf("transfers[%d].from", r), 5)]
			to := []string{"S2", "", "S1", "SX", " S2"}[c.Free(fmt.Sprintf("transfers[%d].to", r), 5)]
			t.Rows = append(t.Rows, append([]string{}, p...))
			t.set(r, "from_stop_id", from)
			t.set(r, "to_stop_id", to)
			desc = append(desc, fmt.Sprintf("(%q->%q)", from, to))
		}
		c03Run(c, m, n >= 1, "transfers "+strings.Join(desc, " "))
	}
}

// c03Cross: every reference-bearing cell (and every id) of a 3-rows-per-table feed gets a
// collision alphabet; <= k deviations across all tables.
func c03Cross(c *Ctx) {
	n := staticCounts{agencies: 2, routes: 3, stops: 3, transfers: 3, calendars: 2, calendarDates: 2, shapes: 2, shapePoints: 2, trips: 3, frequencies: 2, stopTimes: 6}
	m := genStaticFeedN(c, false, n, nil, nil)
	var applied []string
	vary := func(file, col string, alts ...string) {
		t := m.t(file)
		for r := range t.Rows {
			k := c.Choose(fmt.Sprintf("%s[%d].%s", file[:len(file)-4], r, col), len(alts)+1)
			if k > 0 {
				t.set(r, col, alts[k-1])
				applied = append(applied, fmt.Sprintf("%s[%d].%s=%q", file, r, col, alts[k-1]))
			}
		}
	}
	vary("agency.txt", "agency_id", "", "A1", "A2")
	vary("routes.txt", "route_id", "", "R1", "R2")
	vary("routes.txt", "agency_id", "", "A1", "A2", "AX")
	vary("stops.txt", "stop_id", "", "S1", "S2", "S3")
	vary("stops.txt", "parent_station", "", "S1", "S2", "S3", "SX")
	vary("transfers.txt", "from_stop_id", "", "S1", "S3", "SX")
	vary("transfers.txt", "to_stop_id", "", "S1", "S3", "SX")
	vary("calendar.txt", "service_id", "", "C1", "X1")
	vary("calendar_dates.txt", "service_id", "", "C1", "C2")
	vary("shapes.txt", "shape_id", "", "SH1", "SH2")
	vary("trips.txt", "trip_id", "", "T1", "T2")
	vary("trips.txt", "route_id", "", "R1", "R2", "RX")
	vary("trips.txt", "service_id", "", "C1", "C2", "X1", "CX")
	vary("trips.txt", "shape_id", "", "SH1", "SH2", "SHX")
	vary("stop_times.txt", "trip_id", "", "T1", "T2", "T3", "TX", " T1")
	vary("stop_times.txt", "stop_id", "", "S1", "S2", "SX", "S1 ")
	c03Run(c, m, len(applied) > 0, fmt.Sprint(applied))
}

// c03Rings: parent_station rings of n stops (n up to 40), optionally with a tail of stops
// leading into the ring and listed before / after it, and plain chains of n stops.
func c03Rings(c *Ctx) {
	n := []int{1, 2, 3, 5, 8, 9, 10, 12, 17, 25, 40}[c.Free("ring_size", 11)]
	shape := c.Free("shape", 3) // 0 ring, 1 ring + tail listed first, 2 chain (no cycle)
	tail := 0
	if shape == 1 {
		tail = 1 + c.Free("tail_length", 3)
	}
	m := genStaticFeedN(c, false, baseCounts, nil, nil)
	t := m.t("stops.txt")
	p := protoRow(t)
	t.Rows = nil
	add := func(id, parent string) {
		t.Rows = append(t.Rows, append([]string{}, p...))
		r := len(t.Rows) - 1
		t.set(r, "stop_id", id)
		t.set(r, "parent_station", parent)
		t.set(r, "location_type", "")
		t.set(r, "wheelchair_boarding", "")
	}
	for i := 0; i < tail; i++ { // tail stops first: t0 -> t1 -> ... -> ring member 0
		parent := fmt.Sprintf("t%d", i+1)
		if i == tail-1 {
			parent = "s0"
		}
		add(fmt.Sprintf("t%d", i), parent)
	}
	for i := 0; i < n; i++ {
		parent := fmt.Sprintf("s%d", (i+1)%n)
		if shape == 2 && i == n-1 {
			parent = ""
		}
		add(fmt.Sprintf("s%d", i), parent)
	}
	// keep stop_times / transfers resolvable or not: they are irrelevant here
	c.Witness("long_parent_chain_or_ring")
	c03WithOption = true
	c03Run(c, m, true, fmt.Sprintf("stops: shape %d (0 ring, 1 ring with tail, 2 chain) of %d stops, tail %d", shape, n, tail))
}

// c03Concat: ids chosen so that different (route, service) / (from, to) pairs concatenate to
// the same string, in consecutive rows.
func c03Concat(maxRows int) Harness {
	return func(c *Ctx) { c03ConcatRun(c, maxRows) }
}

func c03ConcatRun(c *Ctx, maxRows int) {
	m := genStaticFeedN(c, false, baseCounts, nil, nil)
	rt := m.t("routes.txt")
	pr := protoRow(rt)
	rt.Rows = nil
	for i, id := range []string{"A", "AB", "1", "11"} {
		rt.Rows = append(rt.Rows, append([]string{}, pr...))
		rt.set(i, "route_id", id)
	}
	cal := m.t("calendar.txt")
	pc := protoRow(cal)
	cal.Rows = nil
	for i, id := range []string{"BC", "C", "11", "1"} {
		cal.Rows = append(cal.Rows, append([]string{}, pc...))
		cal.set(i, "service_id", id)
	}
	m.t("calendar_dates.txt").Rows = nil
	routes := []string{"A", "AB", "1", "11", "ABC", "RX"}
	services := []string{"BC", "C", "11", "1", "", "CX"}
	tr := m.t("trips.txt")
	pt := protoRow(tr)
	tr.Rows = nil
	n := 1 + c.Free("trips.rows", maxRows)
	var desc []string
	for r := 0; r < n; r++ {
		ro := routes[c.Free(fmt.Sprintf("trips[%d].route_id", r), len(routes))]
		se := services[c.Free(fmt.Sprintf("trips[%d].service_id", r), len(services))]
		tr.Rows = append(tr.Rows, append([]string{}, pt...))
		tr.set(r, "trip_id", fmt.Sprintf("T%d", r+1))
		tr.set(r, "route_id", ro)
		tr.set(r, "service_id", se)
		tr.set(r, "shape_id", "")
		desc = append(desc, fmt.Sprintf("(%q,%q)", ro, se))
	}
	c.Witness("ids_with_colliding_concatenations")
	c03Run(c, m, n >= 2, "trips (route,service) "+strings.Join(desc, " "))
}

// c03TypedStops: three stops with fixed ids, each with a parent out of {none, the previous row, the
// next row, dangling} and a location type out of {blank, station, entrance, boarding area}: typed
// rows with a missing or dangling parent next to rows that others point at.
func c03TypedStops(c *Ctx) {
	m, desc := c03TypedStopsModel(c)
	c.Witness("typed_stops")
	c03WithOption = true
	c03Run(c, m, true, desc)
}

// c03TypedStopsModel is also used by C05 (every such hierarchy, parsed with and without the inheritance option).
func c03TypedStopsModel(c *Ctx) (*feedModel, string) {
	m := genStaticFeedN(c, false, baseCounts, nil, nil)
	t := m.t("stops.txt")
	p := protoRow(t)
	t.Rows = nil
	ids := []string{"S1", "S2", "S3"}
	var desc []string
	for r := 0; r < 3; r++ {
		parent := []string{"", ids[(r+2)%3], ids[(r+1)%3], "SX"}[c.Free(fmt.Sprintf("stops[%d].parent", r), 4)]
		typ := []string{"", "1", "2", "4"}[c.Free(fmt.Sprintf("stops[%d].location_type", r), 4)]
		t.Rows = append(t.Rows, append([]string{}, p...))
		t.set(r, "stop_id", ids[r])
		t.set(r, "parent_station", parent)
		t.set(r, "location_type", typ)
		t.set(r, "wheelchair_boarding", "")
		desc = append(desc, fmt.Sprintf("%s{parent=%q type=%q}", ids[r], parent, typ))
	}
	for _, f := range []string{"stop_times.txt", "transfers.txt"} {
		tt := m.t(f)
		for r := range tt.Rows {
			for _, col := range []string{"stop_id", "from_stop_id", "to_stop_id"} {
				if tt.col(col) >= 0 {
					tt.set(r, col, ids[(r+tt.col(col))%3])
				}
			}
		}
	}
	// the last row may be written with fewer cells than the header: stop_id only. An archive like that is
	// normally rejected; if it is accepted, the cells that are not there are blank - not the previous row's
	if c.Free("last_row_cut_after_stop_id", 2) == 1 {
		for i := range t.Cols {
			if t.Cols[i] != "stop_id" {
				t.Rows[2][i] = ""
			}
		}
		// stop_id is the first column of stops.txt in the generator's column order
		if t.col("stop_id") != 0 {
			harnessBug("stop_id is not the first column")
		}
		t.Short = map[int]int{2: 1}
		desc = append(desc, "last row: stop_id cell only")
		c.Witness("row_shorter_than_the_header")
	}
	return m, "stops " + strings.Join(desc, " ")
}

// c03NumericIDs: all-numeric stop ids, some equal as numbers and different as text (7, 007, 12),
// referenced from stop_times and transfers by those spellings and by spellings that name no stop
// (0012, 07): a reference binds to the stop whose id is the very text, or to nothing.
func c03NumericIDs(c *Ctx) {
	m := genStaticFeedN(c, false, baseCounts, nil, nil)
	t := m.t("stops.txt")
	p := protoRow(t)
	t.Rows = nil
	ids := []string{"7", "007", "12"}
	for r, id := range ids {
		t.Rows = append(t.Rows, append([]string{}, p...))
		t.set(r, "stop_id", id)
		t.set(r, "parent_station", "")
		t.set(r, "location_type", "")
	}
	refs := []string{"7", "007", "12", "0012", "07", "7.0", "+7"}
	var desc []string
	st := m.t("stop_times.txt")
	for r := range st.Rows {
		v := ids[r%3]
		if r < 2 {
			v = refs[c.Free(fmt.Sprintf("stop_times[%d].stop_id", r), len(refs))]
		}
		st.set(r, "stop_id", v)
		desc = append(desc, v)
	}
	tf := m.t("transfers.txt")
	for r := range tf.Rows {
		a := ids[r%2]
		if r == 0 {
			a = refs[c.Free("transfers[0].from", len(refs))]
		}
		tf.set(r, "from_stop_id", a)
		tf.set(r, "to_stop_id", "12")
		desc = append(desc, "tf:"+a)
	}
	c.Witness("numeric_ids_equal_as_numbers")
	c03Run(c, m, true, "stops 7, 007, 12; references "+strings.Join(desc, ","))
}

func c03Growth(c *Ctx) {
	sizes := []int{64, 65, 129, 257, 513, 1025}
	k := 1 + c.Free("rows_per_table", 40+len(sizes))
	if k > 40 {
		k = sizes[k-41]
	}
	n := staticCounts{agencies: k, routes: k, stops: k, transfers: k, calendars: k, calendarDates: k, shapes: k, shapePoints: 2, trips: k, frequencies: k, stopTimes: 2 * k}
	m := genStaticFeedN(c, false, n, nil, nil)
	// three-level hierarchies all the way: station, platform (child of the row above), boarding area
	// (child of the platform above) - optionally with every child listed before its parent
	st := m.t("stops.txt")
	for r := range st.Rows {
		switch r % 3 {
		case 0:
			st.set(r, "location_type", "1")
			st.set(r, "parent_station", "")
		case 1, 2:
			pid, _ := st.get(r-1, "stop_id")
			st.set(r, "parent_station", pid)
			st.set(r, "location_type", map[int]string{1: "0", 2: "4"}[r%3])
			if (r/3)%2 == 0 {
				st.set(r, "wheelchair_boarding", "") // to be inherited when the option is on
			}
		}
	}
	c03WithOption = true
	if c.Free("children_listed_first", 2) == 1 {
		for i, j := 0, len(st.Rows)-1; i < j; i, j = i+1, j-1 {
			st.Rows[i], st.Rows[j] = st.Rows[j], st.Rows[i]
		}
	}
	c.Witness("growth_sweep")
	c03Run(c, m, true, fmt.Sprintf("well-formed feed with %d rows per table", k))
}

func init() {
	register(&Check{
		ID:    "C03",
		Level: "model_checking",
		Rule: "full products per table: stops 0..3 rows (thorough 0..4) x stop_id {'',S1,S2,S3} x parent {'',S1,S2,S3,SX}; routes 0..3 x agency_id {'',A,B,AX} x 8 agency configurations (single, two, duplicate ids, blank ids, ids differing in case only); stops 7 / 007 / 12 referenced as 7, 007, 12, 0012, 07, 7.0, +7; Stop.Root() must not change the result; three stops x parent {none, previous, next, dangling} x location type {blank, 1, 2, 4} with and without the inheritance option; trips 0..2 x route/service/shape alphabets of five values (thorough: also 3 rows over {known, blank, unknown}) x duplicate route ids (<= 1 trip also x route_sort_order {as generated, descending, first blank then descending}); stop_times 0..2 (thorough 3) x trip {T1,'',T2,TX} x stop {S1,'',SX,S2} x duplicate trip ids; transfers 0..3 (quick 2) x from/to alphabets x duplicate stop ids; map iteration starts 0, 1, 2 applied uniformly to every library range; plus <= 2 deviations over all id / reference cells of an 18-table-row feed parent rings / rings with a tail / chains of up to 40 stops, trips over (route, service) pairs whose concatenations collide, and a growth sweep 1..40, 64, 65, 129, 257, 513, 1025 rows per table with three-level stop hierarchies throughout (parents first / children first), with and without InheritWheelchairBoarding (as the rings and chains); " +
			"non-trivial = distinct archives with at least two rows in the table under study (or any deviation); oracle = pointer-identity / named-id / forest invariants",
		Assumptions: []string{"each result entity is traced to its row through a free-text column carrying the row number", "a route that names no agency may be linked only when there is exactly one agency"},
		Scenarios: func(tier string) []*Scenario {
			st, tr, tf, stt := 3, 2, 2, 2
			if tier == "thorough" {
				st, tr, tf, stt = 4, 3, 3, 3
			}
			return []*Scenario{
				{Name: "stops-product", Bound: -1, Run: c03Stops(st)},
				{Name: "routes-agencies-product", Bound: -1, Run: c03Routes(3)},
				{Name: "trips-product", Bound: -1, Run: c03Trips(tr)},
				{Name: "stop_times-product", Bound: -1, Run: c03StopTimes(stt)},
				{Name: "transfers-product", Bound: -1, Run: c03Transfers(tf)},
				{Name: "cross-table", Bound: 2, Run: c03Cross},
				{Name: "typed-stops", Bound: -1, Run: c03TypedStops},
				{Name: "numeric-ids", Bound: -1, Run: c03NumericIDs},
				{Name: "rings-and-chains", Bound: -1, Run: c03Rings},
				{Name: "colliding-concatenations", Bound: -1, Run: c03Concat(tr)},
				{Name: "growth-sweep", Bound: -1, Run: c03Growth},
			}
		},
	})
}
