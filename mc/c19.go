package main

// C19 - directory feed source: name order, survives bad files.
//
// Enumerated (fault sequences on a real temporary directory, removed after each scenario):
// each of 4 (thorough 5) names - "10", "9", "B", "a", "é": creation order, byte order and
// natural order all differ - is absent or one of 13 entry kinds {good1, good2, good3, empty
// file, good file cut inside the header / inside an entity / before its last byte, corrupt
// file, sub-directory, file that vanishes after listing, file replaced by a directory after
// listing, symbolic link to a good file, dangling symbolic link}, in EVERY assignment (14^4 / 14^5, all-bad and empty directories included), x 2
// creation orders.
// Oracle: the sequence returned by Next equals the independent parses (same extension
// options) of the entries that are readable and parse - decided by parsing those very bytes,
// not by how the generator labelled them - in byte-lexicographic name order, then nil on
// every further call; BuildJournal over the directory equals BuildJournal over those parses.

import (
	"bytes"
	"fmt"
	"net"
	"os"
	"path/filepath"
	"sort"
	"strings"

	"github.com/jamespfennell/gtfs"
	"github.com/jamespfennell/gtfs/extensions/nycttrips"
	"github.com/jamespfennell/gtfs/journal"
	gtfsrt "github.com/jamespfennell/gtfs/proto"
	"google.golang.org/protobuf/proto"
)

var c19Names = []string{"10", "9", "B", "a", "é"}
var c19Kinds = []string{"absent", "good1", "good2", "good3", "empty", "cut-in-header", "cut-in-entity", "cut-last-byte", "corrupt", "sub-directory", "vanishes", "replaced-by-directory", "symlink-to-good-file", "dangling-symlink", "good2-header-last", "good-ending-in-LF", "good-ending-in-CR", "symlink-to-itself", "unix-socket", "good-without-header-timestamp"}

var c19GoodCache [][]byte

func c19Good() [][]byte {
	if c19GoodCache != nil {
		return c19GoodCache
	}
	mk := func(k int, trips ...[]string) []byte {
		ts := uint64(1700000000 + 60*k)
		m := newFeed(&ts)
		for i, t := range trips {
			td := &gtfsrt.TripDescriptor{TripId: sp(t[0]), RouteId: sp("L"), StartDate: sp("20231114")}
			assigned := true
			proto.SetExtension(td, gtfsrt.E_NyctTripDescriptor, &gtfsrt.NyctTripDescriptor{TrainId: sp("train " + t[0]), IsAssigned: &assigned, Direction: gtfsrt.NyctTripDescriptor_NORTH.Enum()})
			tu := &gtfsrt.TripUpdate{Trip: td}
			for j, s := range t[1:] {
				tu.StopTimeUpdate = append(tu.StopTimeUpdate, &gtfsrt.TripUpdate_StopTimeUpdate{StopId: sp(s), Arrival: &gtfsrt.TripUpdate_StopTimeEvent{Time: cp2(int64(ts) + int64(100*(j+1)))}})
			}
			m.Entity = append(m.Entity, &gtfsrt.FeedEntity{Id: sp(fmt.Sprintf("e%d", i)), TripUpdate: tu})
		}
		return marshalFeed(m)
	}
	c19GoodCache = [][]byte{
		mk(0, []string{"063000_L..N01", "L01N", "L02N", "L03N"}),
		mk(1, []string{"063000_L..N01", "L02N", "L03N"}, []string{"064500_L..N02", "L01N"}),
		mk(2, []string{"064500_L..N02", "L01N", "L02N"}),
	}
	// the same message as good2 in a non-canonical (but valid) encoding: the entities first, the
	// header last (protobuf fields may come in any order)
	{
		ts := uint64(1700000000 + 60)
		hdr := marshalFeed(newFeed(&ts))
		full := c19GoodCache[1]
		if !bytes.HasPrefix(full, hdr) {
			harnessBug("canonical encoding does not start with the header")
		}
		c19GoodCache = append(c19GoodCache, append(append([]byte{}, full[len(hdr):]...), hdr...))
	}
	// a valid message whose last byte is 0x0A and one whose last byte is 0x0D (the trip-level delay of the
	// last trip update is 10 / 13): bytes that look like a line end are part of the message
	for _, d := range []int32{10, 13} {
		ts := uint64(1700000000 + 60)
		m := newFeed(&ts)
		m.Entity = []*gtfsrt.FeedEntity{{Id: sp("e0"), TripUpdate: &gtfsrt.TripUpdate{Trip: &gtfsrt.TripDescriptor{TripId: sp("063000_L..N01"), RouteId: sp("L"), StartDate: sp("20231114")},
			StopTimeUpdate: []*gtfsrt.TripUpdate_StopTimeUpdate{{StopId: sp("L02N"), Arrival: &gtfsrt.TripUpdate_StopTimeEvent{Time: cp2(int64(ts) + 100)}}}, Delay: cp32(d)}}}
		b := marshalFeed(m)
		if b[len(b)-1] != byte(d) {
			harnessBug("the message does not end in byte %d", d)
		}
		c19GoodCache = append(c19GoodCache, b)
	}
	// a valid message whose header carries no timestamp (the field is optional): what it yields is the
	// parse of its bytes, whatever the file system says about the file
	{
		m := newFeed(nil)
		m.Entity = []*gtfsrt.FeedEntity{{Id: sp("e0"), TripUpdate: &gtfsrt.TripUpdate{Trip: &gtfsrt.TripDescriptor{TripId: sp("064500_L..N02"), RouteId: sp("L"), StartDate: sp("20231114")},
			Vehicle: &gtfsrt.VehicleDescriptor{Id: sp("train without clock")}, StopTimeUpdate: []*gtfsrt.TripUpdate_StopTimeUpdate{{StopId: sp("L02N"), Arrival: &gtfsrt.TripUpdate_StopTimeEvent{Time: cp2(1700000300)}}}}}}
		c19GoodCache = append(c19GoodCache, marshalFeed(m))
	}
	return c19GoodCache
}

func c19Opts() *gtfs.ParseRealtimeOptions {
	return &gtfs.ParseRealtimeOptions{Extension: nycttrips.Extension(nycttrips.ExtensionOpts{FilterStaleUnassignedTrips: true, PreserveMTrainPlatformsInBushwick: false})}
}

func c19Content(kind int) []byte {
	g := c19Good()
	switch c19Kinds[kind] {
	case "good1":
		return g[0]
	case "good2":
		return g[1]
	case "good3", "vanishes", "replaced-by-directory":
		return g[2]
	case "good2-header-last":
		return g[3]
	case "good-ending-in-LF":
		return g[4]
	case "good-ending-in-CR":
		return g[5]
	case "good-without-header-timestamp":
		return g[6]
	case "empty":
		return []byte{}
	case "cut-in-header":
		return g[1][:4]
	case "cut-in-entity":
		return g[1][:len(g[1])/2]
	case "cut-last-byte":
		return g[1][:len(g[1])-1]
	case "corrupt":
		b := append([]byte{}, g[0]...)
		for i := 8; i < len(b); i += 3 {
			b[i] ^= 0xa5
		}
		return b
	}
	return nil
}

// c19ClockPatterns: how the wall clock moves while the directory is replayed (the source prints
// progress once per second of wall time): which Next calls are preceded by a 2 s jump.
var c19ClockPatterns = []string{"steady", "2s-before-every-Next", "2s-before-the-first-Next", "2s-before-the-second-Next", "2s-before-the-third-Next"}

func c19Jump(pattern, call int) bool {
	switch pattern {
	case 1:
		return true
	case 2, 3, 4:
		return call == pattern-2
	}
	return false
}

func c19Harness(nNames int, allKinds bool) Harness { return c19HarnessClock(nNames, allKinds, false) }

func c19HarnessClock(nNames int, allKinds bool, clock bool) Harness {
	return func(c *Ctx) {
		pattern := 0
		if clock {
			pattern = 1 + c.Free("clock", len(c19ClockPatterns)-1)
		}
		kinds := make([]int, nNames)
		var desc []string
		for i := 0; i < nNames; i++ {
			if allKinds {
				kinds[i] = c.Free("entry["+c19Names[i]+"]", len(c19Kinds))
			} else {
				kinds[i] = c19QuickKinds[c.Free("entry["+c19Names[i]+"]", len(c19QuickKinds))]
			}
			if kinds[i] != 0 {
				desc = append(desc, c19Names[i]+"="+c19Kinds[kinds[i]])
			}
		}
		reverseCreation := c.Free("creation_order_reversed", 2) == 1
		d := strings.Join(desc, " ")
		if clock {
			d += " clock=" + c19ClockPatterns[pattern]
		}
		c.Input(hash64(d+fmt.Sprint(reverseCreation)), len(desc) >= 2, func() string { return fmt.Sprintf("directory {%s} created in reverse order: %v", d, reverseCreation) })
		dir, err := os.MkdirTemp(scratchBase(), "verifc19")
		if err != nil {
			harnessBug("mkdtemp: %v", err)
		}
		defer os.RemoveAll(dir)
		linkTargets, err := os.MkdirTemp(scratchBase(), "verifc19t")
		if err != nil {
			harnessBug("mkdtemp: %v", err)
		}
		defer os.RemoveAll(linkTargets)
		order := make([]int, nNames)
		for i := range order {
			order[i] = i
			if reverseCreation {
				order[i] = nNames - 1 - i
			}
		}
		for _, i := range order {
			if kinds[i] == 0 {
				continue
			}
			p := filepath.Join(dir, c19Names[i])
			if c19Kinds[kinds[i]] == "sub-directory" {
				if err := os.Mkdir(p, 0755); err != nil {
					harnessBug("mkdir: %v", err)
				}
				os.WriteFile(filepath.Join(p, "inner"), c19Good()[0], 0644)
				continue
			}
			switch c19Kinds[kinds[i]] {
			case "symlink-to-good-file":
				target := filepath.Join(linkTargets, "target-"+c19Names[i])
				if err := os.WriteFile(target, c19Good()[1], 0644); err != nil {
					harnessBug("write: %v", err)
				}
				if err := os.Symlink(target, p); err != nil {
					harnessBug("symlink: %v", err)
				}
				continue
			case "symlink-to-itself": // reading it fails with ELOOP
				if err := os.Symlink(p, p); err != nil {
					harnessBug("symlink: %v", err)
				}
				continue
			case "unix-socket": // reading it fails with ENXIO
				l, err := net.Listen("unix", p)
				if err != nil {
					harnessBug("unix socket: %v", err)
				}
				if ul, ok := l.(*net.UnixListener); ok {
					ul.SetUnlinkOnClose(false)
				}
				l.Close()
				continue
			case "dangling-symlink":
				if err := os.Symlink(filepath.Join(linkTargets, "no-such-file"), p); err != nil {
					harnessBug("symlink: %v", err)
				}
				continue
			}
			if err := os.WriteFile(p, c19Content(kinds[i]), 0644); err != nil {
				harnessBug("write: %v", err)
			}
		}
		var src *journal.DirectoryGtfsrtSource
		if !guardSig(c, "NewDirectoryGtfsrtSource", func() { src, err = journal.NewDirectoryGtfsrtSource(dir) }) {
			return
		}
		if err != nil || src == nil {
			c.Fail("source-construction-failed", "NewDirectoryGtfsrtSource: %v", err)
			return
		}
		// faults that happen after the listing
		for i := range kinds {
			p := filepath.Join(dir, c19Names[i])
			switch c19Kinds[kinds[i]] {
			case "vanishes":
				os.Remove(p)
			case "replaced-by-directory":
				os.Remove(p)
				os.Mkdir(p, 0755)
			}
		}
		// expectation: decided by the bytes that are there now
		var names []string
		for i := range kinds {
			if kinds[i] != 0 {
				names = append(names, c19Names[i])
			}
		}
		sort.Strings(names)
		var want []*gtfs.Realtime
		var wantNames []string
		bad := 0
		for _, n := range names {
			b, err := os.ReadFile(filepath.Join(dir, n))
			if err != nil {
				bad++
				continue
			}
			// "parses as GTFS-realtime" is decided independently of the library: strict decoding of
			// the bytes as a FeedMessage (required fields included)
			if proto.Unmarshal(b, &gtfsrt.FeedMessage{}) != nil {
				bad++
				continue
			}
			r, err := gtfs.ParseRealtime(b, c19Opts())
			if err != nil {
				c.Fail("directory-source:good-file-rejected", "{%s}: file %s decodes as a FeedMessage but ParseRealtime rejects it: %v", d, n, err)
				return
			}
			want = append(want, r)
			wantNames = append(wantNames, n)
		}
		var got []*gtfs.Realtime
		ok := guardSig(c, "DirectoryGtfsrtSource.Next", func() {
			var ahead int64
			for i := 0; i < len(names)+4; i++ {
				if c19Jump(pattern, i) {
					ahead += 2
				}
				var r *gtfs.Realtime
				withClockAdvanced(ahead, func() { r = src.Next() })
				if r == nil {
					// must stay nil
					for k := 0; k < 3; k++ {
						if again := src.Next(); again != nil {
							c.Fail("yields-after-end", "{%s}: Next returned nil and then a feed again", d)
						}
					}
					return
				}
				got = append(got, r)
			}
			c.Fail("does-not-end", "{%s}: Next keeps returning feeds (%d so far for %d entries)", d, len(got), len(names))
		})
		if !ok {
			return
		}
		c.Steps(len(names) + 4)
		o := rtDumpOpts{links: true}
		var wl, gl []string
		for _, r := range want {
			wl = append(wl, dumpRealtime(r, o))
		}
		for _, r := range got {
			gl = append(gl, dumpRealtime(r, o))
		}
		c.Outcome(strings.Join(gl, "=====\n"))
		if strings.Join(wl, "=====\n") != strings.Join(gl, "=====\n") {
			sig := "sequence-differs"
			if len(gl) < len(wl) {
				sig = "feeds-lost"
			} else if len(gl) > len(wl) {
				sig = "extra-feeds"
			} else if sortedJoin(wl) == sortedJoin(gl) {
				sig = "wrong-order"
			}
			c.Fail("directory-source:"+sig, "{%s}: Next yielded %d feeds, expected the parses of %v in that order\n%s", d, len(got), wantNames, diffLines(strings.Join(wl, "=====\n"), strings.Join(gl, "=====\n")))
			return
		}
		// journal over the directory == journal over the good files alone
		src2, err := journal.NewDirectoryGtfsrtSource(dir)
		if err != nil {
			// the directory exists (it may be empty by now): a source over it yields nothing and ends
			c.Fail("source-construction-failed", "{%s}: NewDirectoryGtfsrtSource on the existing directory (second source, after the entries that vanish are gone): %v", d, err)
			return
		}
		var jd, jg *journal.Journal
		if !guardSig(c, "BuildJournal(directory)", func() { jd = journal.BuildJournal(src2, farPast, farFuture) }) {
			return
		}
		jg = buildJournal(want, farPast, farFuture)
		if a, b := dumpJournal(jg), dumpJournal(jd); a != b {
			c.Fail("directory-source:journal-differs", "{%s}: journal over the directory differs from the journal over its good files\n%s", d, diffLines(a, b))
		}
		if bad > 0 && len(want) > 0 {
			c.Witness("good_and_bad_entries_mixed")
		}
		if bad > 0 && len(want) == 0 {
			c.Witness("all_entries_bad")
		}
		if len(wantNames) >= 2 {
			c.Witness("two_or_more_good_files")
		}
		if clock && len(wantNames) >= 2 {
			c.Witness("clock_jumps_between_good_files")
		}
	}
}

// scratchBase prefers a memory-backed directory for the tens of thousands of scratch directories.
func scratchBase() string {
	if st, err := os.Stat("/dev/shm"); err == nil && st.IsDir() {
		if f, err := os.CreateTemp("/dev/shm", "verifprobe"); err == nil {
			f.Close()
			os.Remove(f.Name())
			return "/dev/shm"
		}
	}
	return ""
}

var c19QuickKinds = []int{0, 1, 2, 4, 6, 8, 9, 10, 12, 14, 15, 17, 18, 19}

// c19NameOrder: good files under names whose byte order differs from "natural", extension-less,
// case-insensitive or numeric order: every subset of 4 of 22 names.
var c19TrickyNames = []string{"snapshot.pb", "snapshot-2.pb", "snapshot (copy).pb", "snapshot.2.pb", "snapshot_3.pb", "Snapshot.pb", "snapshot.pb.1", "snapshot", "2.pb", "10.pb",
	"caf\xe9-2.pb" /* not valid UTF-8 */, "\xff\xfe", "two\nlines.pb", " leading-space.pb", ".hidden.pb", "-dash.pb", "caf\u00e9-2.pb", strings.Repeat("long-name-", 24) + ".pb",
	// characters that mean something to shells, glob patterns and path cleaning - and nothing in a file name
	"feed..pb", "..2023-11-14.pb", "z..", "br[ack]et.pb"}

// c19DirNames: the directory itself may carry such characters ("" = the scratch directory as it is)
var c19DirNames = []string{"", "feeds[2024]", "snap[1]*?", "back\\slash .."}

func c19NameOrder(c *Ctx) {
	var idx []int
	last := -1
	for k := 0; k < 4; k++ {
		remaining := len(c19TrickyNames) - (last + 1) - (3 - k)
		j := last + 1 + c.Free(fmt.Sprintf("name[%d]", k), remaining)
		idx = append(idx, j)
		last = j
	}
	dir, err := os.MkdirTemp(scratchBase(), "verifc19N")
	if err != nil {
		harnessBug("mkdtemp: %v", err)
	}
	defer os.RemoveAll(dir)
	dirName := ""
	if idx[0] == 0 {
		dirName = c19DirNames[c.Free("directory_name", len(c19DirNames))]
	}
	if dirName != "" {
		dir = filepath.Join(dir, dirName)
		if err := os.Mkdir(dir, 0755); err != nil {
			harnessBug("mkdir: %v", err)
		}
		// a sibling whose name the pattern-reading of the directory name would match
		os.Mkdir(filepath.Join(filepath.Dir(dir), "feeds2"), 0755)
		os.WriteFile(filepath.Join(filepath.Dir(dir), "feeds2", "intruder.pb"), []byte{}, 0644)
		c.Witness("directory_with_pattern_characters")
	}
	var names []string
	// every file gets its own feed time so that the order is visible in the results
	for k, j := range idx {
		ts := uint64(1700000000 + 60*k)
		m := newFeed(&ts)
		m.Entity = []*gtfsrt.FeedEntity{{Id: sp("e"), TripUpdate: &gtfsrt.TripUpdate{Trip: &gtfsrt.TripDescriptor{TripId: sp(fmt.Sprintf("06%d000_L..N01", k)), RouteId: sp("L")}}}}
		if err := os.WriteFile(filepath.Join(dir, c19TrickyNames[j]), marshalFeed(m), 0644); err != nil {
			harnessBug("write: %v", err)
		}
		names = append(names, c19TrickyNames[j])
	}
	sorted := append([]string{}, names...)
	sort.Strings(sorted)
	c.Input(hash64(strings.Join(names, "|")+"/"+dirName), true, func() string { return fmt.Sprintf("directory %q files %q, expected order %q", dirName, names, sorted) })
	var src *journal.DirectoryGtfsrtSource
	if !guardSig(c, "NewDirectoryGtfsrtSource", func() { src, err = journal.NewDirectoryGtfsrtSource(dir) }) || err != nil {
		c.Fail("source-construction-failed", "%v", err)
		return
	}
	var got []string
	if !guardSig(c, "DirectoryGtfsrtSource.Next", func() {
		for i := 0; i < 8; i++ {
			r := src.Next()
			if r == nil {
				return
			}
			// which file was this? the feed time identifies it
			k := int(r.CreatedAt.Unix()-1700000000) / 60
			if k >= 0 && k < len(names) {
				got = append(got, names[k])
			} else {
				got = append(got, "?")
			}
		}
	}) {
		return
	}
	c.Steps(5)
	c.Outcome(strings.Join(got, "|"))
	if strings.Join(got, "|") != strings.Join(sorted, "|") {
		c.Fail("directory-source:wrong-order", "files %q were yielded in the order %q, lexicographic file-name order is %q", names, got, sorted)
	}
	c.Witness("tricky_names")
}

// c19BadRuns: N unreadable / unparseable entries in a row (by name order) between good files,
// for N around powers of two: however long the run, the stream goes on.
var c19RunLengths = []int{1, 15, 16, 17, 63, 64, 65, 66, 130, 257, 520}

func c19BadRuns(c *Ctx) {
	n := c19RunLengths[c.Free("bad_entries_in_a_row", len(c19RunLengths))]
	kind := c.Free("kind_of_bad_entry", 4) // 0 empty, 1 corrupt, 2 sub-directory, 3 mixed
	where := c.Free("position", 3)         // 0 between two good files, 1 before the only good file, 2 after it
	dir, err := os.MkdirTemp(scratchBase(), "verifc19R")
	if err != nil {
		harnessBug("mkdtemp: %v", err)
	}
	defer os.RemoveAll(dir)
	g := c19Good()
	write := func(name string, b []byte) {
		if err := os.WriteFile(filepath.Join(dir, name), b, 0644); err != nil {
			harnessBug("write: %v", err)
		}
	}
	var want [][]byte
	if where != 1 {
		write("a-first", g[0])
		want = append(want, g[0])
	}
	for i := 0; i < n; i++ {
		name := fmt.Sprintf("m-bad-%04d", i)
		k := kind
		if kind == 3 {
			k = i % 3
		}
		switch k {
		case 0:
			write(name, nil)
		case 1:
			write(name, c19Content(8))
		case 2:
			os.Mkdir(filepath.Join(dir, name), 0755)
		}
	}
	if where != 2 {
		write("z-last", g[2])
		want = append(want, g[2])
	}
	desc := fmt.Sprintf("%d bad entries (kind %d) in a row, position %d", n, kind, where)
	c.Input(hash64(desc), true, func() string { return desc })
	var src *journal.DirectoryGtfsrtSource
	if !guardSig(c, "NewDirectoryGtfsrtSource", func() { src, err = journal.NewDirectoryGtfsrtSource(dir) }) || err != nil {
		c.Fail("source-construction-failed", "%v", err)
		return
	}
	var got []string
	if !guardSig(c, "DirectoryGtfsrtSource.Next", func() {
		for i := 0; i < 5; i++ {
			r := src.Next()
			if r == nil {
				return
			}
			got = append(got, dumpRealtime(r, rtDumpOpts{links: true}))
		}
	}) {
		return
	}
	c.Steps(n + 2)
	var wl []string
	for _, b := range want {
		r, err := gtfs.ParseRealtime(b, c19Opts())
		if err != nil {
			harnessBug("seed: %v", err)
		}
		wl = append(wl, dumpRealtime(r, rtDumpOpts{links: true}))
	}
	c.Outcome(strings.Join(got, "=====\n"))
	if strings.Join(wl, "=====\n") != strings.Join(got, "=====\n") {
		sig := "sequence-differs"
		if len(got) < len(wl) {
			sig = "feeds-lost"
		} else if len(got) > len(wl) {
			sig = "extra-feeds"
		}
		c.Fail("directory-source:"+sig, "%s: Next yielded %d feeds, expected %d", desc, len(got), len(wl))
	}
	c.Witness("long_run_of_bad_entries")
}

// c19LargeFeed builds a valid feed of at least size bytes (many trip updates).
var c19LargeCache = map[int][]byte{}

func c19LargeFeed(size int) []byte {
	if b, ok := c19LargeCache[size]; ok {
		return b
	}
	ts := uint64(1700000060)
	m := newFeed(&ts)
	n := size/50 + 1
	for i := 0; i < n; i++ {
		td := &gtfsrt.TripDescriptor{TripId: sp(fmt.Sprintf("%06d_L..N%04d", i%600000, i)), RouteId: sp("L"), StartDate: sp("20231114")}
		m.Entity = append(m.Entity, &gtfsrt.FeedEntity{Id: sp(fmt.Sprintf("e%d", i)), TripUpdate: &gtfsrt.TripUpdate{Trip: td,
			StopTimeUpdate: []*gtfsrt.TripUpdate_StopTimeUpdate{{StopId: sp("L01N"), Arrival: &gtfsrt.TripUpdate_StopTimeEvent{Time: cp2(int64(ts) + 100)}}}}})
	}
	b := marshalFeed(m)
	if len(b) < size {
		harnessBug("large feed too small: %d < %d", len(b), size)
	}
	c19LargeCache[size] = b
	return b
}

// c19Large: a directory with a small good file, a LARGE good file and another small good file;
// sizes straddle common buffer and limit sizes. Every file must be yielded, in name order.
func c19Large(c *Ctx) {
	size := []int{70 << 10, 1<<20 + 4096, 4<<20 + 4096, 17 << 20}[c.Free("large_file_size", 4)]
	pos := c.Free("large_file_position", 3)
	dir, err := os.MkdirTemp(scratchBase(), "verifc19L")
	if err != nil {
		harnessBug("mkdtemp: %v", err)
	}
	defer os.RemoveAll(dir)
	names := []string{"a", "b", "c"}
	for i, n := range names {
		content := c19Good()[i%3]
		if i == pos {
			content = c19LargeFeed(size)
		}
		if err := os.WriteFile(filepath.Join(dir, n), content, 0644); err != nil {
			harnessBug("write: %v", err)
		}
	}
	desc := fmt.Sprintf("files a,b,c; file %s is a valid feed of %d bytes", names[pos], len(c19LargeFeed(size)))
	c.Input(hash64(desc), true, func() string { return desc })
	var src *journal.DirectoryGtfsrtSource
	if !guardSig(c, "NewDirectoryGtfsrtSource", func() { src, err = journal.NewDirectoryGtfsrtSource(dir) }) || err != nil {
		c.Fail("source-construction-failed", "%v", err)
		return
	}
	var got []*gtfs.Realtime
	if !guardSig(c, "DirectoryGtfsrtSource.Next", func() {
		for i := 0; i < 6; i++ {
			r := src.Next()
			if r == nil {
				return
			}
			got = append(got, r)
		}
	}) {
		return
	}
	c.Steps(4)
	var want []*gtfs.Realtime
	for _, n := range names {
		b, _ := os.ReadFile(filepath.Join(dir, n))
		r, err := gtfs.ParseRealtime(b, c19Opts())
		if err != nil {
			harnessBug("large feed does not parse: %v", err)
		}
		want = append(want, r)
	}
	if len(got) != len(want) {
		c.Fail("directory-source:feeds-lost", "%s: Next yielded %d feeds, want %d", desc, len(got), len(want))
		return
	}
	for i := range want {
		if len(got[i].Trips) != len(want[i].Trips) || !got[i].CreatedAt.Equal(want[i].CreatedAt) {
			c.Fail("directory-source:sequence-differs", "%s: feed %d has %d trips (created %s), want %d (%s)", desc, i, len(got[i].Trips), fmtTime(got[i].CreatedAt), len(want[i].Trips), fmtTime(want[i].CreatedAt))
		}
	}
	c.Outcome(fmt.Sprint(len(got), size, pos))
	c.Witness("large_file_in_directory")
}

func sortedJoin(l []string) string {
	s := append([]string{}, l...)
	sort.Strings(s)
	return strings.Join(s, "=====\n")
}

func init() {
	register(&Check{
		ID:    "C19",
		Level: "fault_enumeration",
		Rule: "every assignment of {absent, good1, good2, good3, empty, cut-in-header, cut-in-entity, cut-last-byte, corrupt, sub-directory, vanishes after listing, replaced by a directory after listing, symlink to a good file, dangling symlink, a valid feed encoded header-last, valid feeds ending in the bytes 0x0A / 0x0D, symlink to itself (ELOOP), unix socket (ENXIO), a valid feed whose header has no timestamp} to the names 10, 9, B, a, é (thorough: all 20 kinds on 5 names; quick: 14 kinds on the first 4 names) - x 2 creation orders, on a real temporary directory; plus every 4-subset of 22 file names (byte order differing from extension-less / natural / case-insensitive order; names that are not valid UTF-8, contain a newline, start with a blank, a dot or a dash, contain '..' or brackets, are 240 bytes long), the subsets containing the first name also inside directories named feeds[2024] / snap[1]*? / back\\slash .. next to a sibling such a pattern would match; plus runs of 1..520 bad entries in a row before / between / after good files; good files in a non-canonical field order (header last) and ending in the bytes 0x0A / 0x0D; plus 3-name directories replayed while the wall clock jumps 2 s before chosen Next calls (the source reports progress once per second); plus directories in which one of three good files is 70 KiB / 1 MiB / 4 MiB / 17 MiB large, at each position; " +
			"non-trivial = distinct directories with >= 2 entries; oracle = independent parses of the readable, parseable entries in byte order of their names, nil afterwards, and equality of the journals",
		Assumptions: []string{"unreadable means: is a directory or no longer exists (the checks run as root, so permission faults cannot be produced)", "whether a damaged file still 'parses as GTFS-realtime' is decided independently of the library, by strictly decoding its bytes as a FeedMessage"},
		Scenarios: func(tier string) []*Scenario {
			if tier == "thorough" {
				return []*Scenario{{Name: "directories-5-names-14-kinds", Bound: -1, Run: c19Harness(5, true)}, {Name: "large-files", Bound: -1, Run: c19Large}, {Name: "name-order", Bound: -1, Run: c19NameOrder}, {Name: "clock-jumps-3-names", Bound: -1, Run: c19HarnessClock(3, true, true)}, {Name: "bad-runs", Bound: -1, Run: c19BadRuns}}
			}
			return []*Scenario{{Name: "directories-4-names-14-kinds", Bound: -1, Run: c19Harness(4, true)}, {Name: "large-files", Bound: -1, Run: c19Large}, {Name: "name-order", Bound: -1, Run: c19NameOrder}, {Name: "clock-jumps-3-names", Bound: -1, Run: c19HarnessClock(3, false, true)}, {Name: "bad-runs", Bound: -1, Run: c19BadRuns}}
		},
	})
}
