package main

// C01 - static parse is a faithful transcription, presentation-independent.
//
// Enumerated: well-formed feeds around a base feed (2 agencies in different zones, 2 routes,
// 3 stops incl. a station and its platform, 2 transfers, 2 calendar rows, 2 exception rows, 2
// shapes x 2 points, 2 trips, 2 frequencies, 4 stop times over both trips) in which every
// cell differs. Choice points: row count of every table, EVERY cell (boundary values by
// column kind, every digit of every enum), id spelling (space, comma+quote, non-ASCII), and
// nine presentation dimensions. Quick: <= 2 deviations. Thorough: additionally the full
// product of the presentation dimensions x every single-cell deviation.
// Oracle: dump(ParseStatic(render(m, p))) == dump(refStatic(m)); Services as a set.

import (
	"fmt"

	"github.com/jamespfennell/gtfs"
)

func c01Harness(freePresentation bool) Harness {
	return func(c *Ctx) {
		m := genStaticFeed(c, true)
		p := genPresentation(c, freePresentation)
		b := renderFeed(m, p)
		in := append([]byte(nil), b...)
		c.Input(hash64(string(b)), true, func() string { return p.String() + "\n" + m.text() })
		r, err, ok := parseStaticGuarded(c, b, gtfs.ParseStaticOptions{})
		if !ok {
			return
		}
		c.Steps(len(m.Tables))
		if err != nil {
			c.Fail("valid-feed-rejected", "ParseStatic rejected a well-formed feed: %v", err)
			return
		}
		if string(b) != string(in) {
			c.Fail("input-mutated", "ParseStatic modified its input buffer")
		}
		want := refStatic(m, refStaticOpts{})
		o := staticDumpOpts{sortServices: true}
		wd, gd := dumpStatic(want, o), dumpStatic(r, o)
		c.Outcome(gd)
		if wd != gd {
			c.Fail("transcription:"+firstDiffKind(wd, gd), "result differs from the rows of the feed (%s)\n%s", p, diffLines(wd, gd))
		}
		if p != (presentation{}) {
			c.Witness("non_default_presentation")
		}
	}
}

// c01Sizes: larger well-formed feeds (no cell variation): n rows per table.
func c01Sizes(c *Ctx) {
	k := []int{5, 9, 17, 33, 64, 129, 257}[c.Free("rows_per_table", 7)]
	n := staticCounts{agencies: k, routes: k, stops: k, transfers: k, calendars: k, calendarDates: k, shapes: k / 2, shapePoints: 3, trips: k, frequencies: k, stopTimes: 3 * k}
	m := genStaticFeedN(c, false, n, nil, nil)
	p := genPresentation(c, false)
	b := renderFeed(m, p)
	c.Input(hash64(string(b)), true, func() string { return fmt.Sprintf("%d rows per table, %s", k, p) })
	r, err, ok := parseStaticGuarded(c, b, gtfs.ParseStaticOptions{})
	if !ok {
		return
	}
	c.Steps(len(m.Tables))
	if err != nil {
		c.Fail("valid-feed-rejected", "ParseStatic rejected a well-formed feed: %v", err)
		return
	}
	want := refStatic(m, refStaticOpts{})
	o := staticDumpOpts{sortServices: true}
	wd, gd := dumpStatic(want, o), dumpStatic(r, o)
	c.Outcome(gd)
	if wd != gd {
		c.Fail("transcription:"+firstDiffKind(wd, gd), "result differs from the rows of the feed (%d rows per table, %s)\n%s", k, p, diffLines(wd, gd))
	}
	c.Witness("larger_feed")
}

// c01LargeMembers: members of more than 1 MiB / 8 MiB whose text is highly repetitive (every
// stop carries the same long description, every stop time the same headsign), stored and
// deflated (compression ratios beyond 100:1): compression is presentation, not content.
func c01LargeMembers(c *Ctx) {
	rows := []int{600, 2500}[c.Free("rows", 2)]
	textLen := []int{2100, 4200}[c.Free("text_bytes_per_row", 2)]
	which := c.Free("member", 2) // 0 stops.txt (stop_desc), 1 stop_times.txt (stop_headsign)
	deflate := c.Free("deflate", 2) == 1
	n := baseCounts
	n.stops, n.stopTimes = 5, 8
	if which == 0 {
		n.stops = rows
	} else {
		n.stopTimes = rows
	}
	m := genStaticFeedN(c, false, n, nil, nil)
	sentence := "This stop is served by all routes listed on the agency web site; please check the timetable. "
	text := ""
	for len(text) < textLen {
		text += sentence
	}
	file, col := "stops.txt", "stop_desc"
	if which == 1 {
		file, col = "stop_times.txt", "stop_headsign"
	}
	t := m.t(file)
	for r := range t.Rows {
		t.set(r, col, text)
	}
	p := presentation{Deflate: deflate}
	b := renderFeed(m, p)
	desc := fmt.Sprintf("%s with %d rows x %d bytes of repetitive text, deflate=%v (archive %d bytes)", file, rows, len(text), deflate, len(b))
	c.Input(hash64(desc), true, func() string { return desc })
	r, err, ok := parseStaticGuarded(c, b, gtfs.ParseStaticOptions{})
	if !ok {
		return
	}
	c.Steps(len(m.Tables))
	if err != nil {
		c.Fail("valid-feed-rejected", "ParseStatic rejected a well-formed feed (%s): %v", desc, err)
		return
	}
	want := refStatic(m, refStaticOpts{})
	o := staticDumpOpts{sortServices: true}
	wd, gd := dumpStatic(want, o), dumpStatic(r, o)
	c.Outcome(fmt.Sprint(hash64(gd)))
	if wd != gd {
		c.Fail("transcription:"+firstDiffKind(wd, gd), "result differs from the rows of the feed (%s)\n%s", desc, diffLines(wd, gd))
	}
	c.Witness("member_larger_than_1MiB")
}

func init() {
	register(&Check{
		ID:    "C01",
		Level: "model_checking",
		Rule: "well-formed feeds within k deviations of a 10-file base feed: row count of each table (0-6), every cell over its kind's alphabet (texts: space / comma+quote / non-ASCII / embedded LF / blank lines inside a quoted value / HTML entities / text that is not in Unicode NFC / blank; all enum digits; times 00:00:00, 4:05:06, 25:10:05, 47:59:59; decimals 0, 1.5, -73.25, ' 2.5 ', 1e-3, 17-digit values (40.295390375177476, ...), blank; ints 0, -5, 2147483647, blank; dates incl. DST days, leap day, 00010101 and 99991231; 10 agency zones incl. unknown, America/Santiago (DST starts at local midnight; switch day 20240908), names without a slash (Japan, EST5EDT) and zones whose DST switches precede UTC midnight (Sydney, Lord Howe) with their switch days; values starting with '#'; 'the same value as the row above' for text, time, decimal and colour cells; extra members in sub-folders named like supported tables), id spellings (incl. ids that differ in letter case only), x 9 presentation dimensions (column order, unknown column position incl. 70 unknown columns in front, extra files, member order, deflate, BOM, CRLF, trailing newline, full quoting); quick k<=2, plus members of 1.2 - 10 MiB of repetitive text, stored and deflated; plus feeds of 5..257 rows per table x <= 2 presentation deviations; thorough additionally the full presentation product (1440) x k<=1; " +
			"non-trivial = every distinct archive; oracle = reference interpretation of the tables",
		Assumptions: []string{"archive/zip and the harness CSV writer are trusted as renderer", "location_type 0 with a parent is a platform, as the library's enum documents", "optional default-bearing fields are written explicitly (blank/absent is C10)"},
		Scenarios: func(tier string) []*Scenario {
			s := []*Scenario{{Name: "cells+presentation", Bound: 2, Run: c01Harness(false)}, {Name: "sizes", Bound: 2, Run: c01Sizes}, {Name: "large-members", Bound: -1, Run: c01LargeMembers}}
			if tier == "thorough" {
				s = append(s, &Scenario{Name: "all-presentations-x-cell", Bound: 1, Run: c01Harness(true)})
			}
			return s
		},
	})
}
