package main

// C05 - no input can crash or hang the library. Fault enumeration: the deviation is a
// departure from a well-formed input.
//
// Realtime: (a) every byte string of length <= 2 (thorough <= 3) and every string of length
// <= 4 (thorough <= 5) over a 20-byte wire alphabet, raw, after a valid header and inside a
// valid entity, x {no extension, nycttrips, nyctalerts}; (b) a message generator widened to
// semantically bad values (empty / short trip ids, absent stop ids, malformed start times and
// dates, NYCT descriptors with missing parts, entities without payload or with several,
// empty vehicle descriptors, conflicting duplicates, extreme numbers, odd elevator ids and
// Mercury sort orders), k deviations, x ALL 29 bundled extension configurations; (c) for a
// set of valid seed messages every truncation point and every single-byte substitution from
// {00,01,7f,80,ff,b-1,b+1, each single-bit flip}.
// Every accepted result then goes through the accessor sweep: nil-safe getters, Hash of every
// trip and vehicle, BuildJournal over 10 histories built from r, shortened versions of r and a second feed, with three windows, ExportToCsv.
// Static: (a) per table structural faults (each required column removed, header only, empty
// member, member missing, BOM only, lone quote, ragged rows, NUL bytes, non-numeric value in
// every numeric column, duplicate header), k <= 2; (a') per file, under its valid header
// and after one valid row, EVERY body of length <= 4 (thorough <= 6) over an 8-character CSV
// alphabet; (b) container faults on seed archives: every truncation point and every
// single-byte substitution. Accessor sweep: acyclicity walk, Root() of every stop, full
// pointer walk.
// Oracle: every call returns (value or error): no recovered panic, no worker death, no
// watchdog expiry (60 s without progress on executions that take microseconds).

import (
	"fmt"
	"regexp"
	"strings"
	"time"

	"github.com/jamespfennell/gtfs"
	"github.com/jamespfennell/gtfs/extensions/nyctalerts"
	"github.com/jamespfennell/gtfs/extensions/nycttrips"
	gtfsrt "github.com/jamespfennell/gtfs/proto"
	"google.golang.org/protobuf/proto"
)

var digitsRe = regexp.MustCompile(`[0-9]+`)

func panicSig(where, text string) string {
	return "panic:" + where + ":" + digitsRe.ReplaceAllString(text, "N")
}

// guardSig runs f and records a panic as a failure with a normalised signature.
func guardSig(c *Ctx, what string, f func()) bool {
	pan, where, text, stack := guard(f)
	if pan {
		c.Fail(panicSig(where, text), "%s panicked: %s\n%s", what, text, stack)
		return false
	}
	return true
}

type extConfig struct {
	name string
	mk   func() *gtfs.ParseRealtimeOptions
}

var c05ThreeConfigs = []extConfig{
	{"none", func() *gtfs.ParseRealtimeOptions { return &gtfs.ParseRealtimeOptions{} }},
	{"nycttrips", func() *gtfs.ParseRealtimeOptions {
		return &gtfs.ParseRealtimeOptions{Extension: nycttrips.Extension(nycttrips.ExtensionOpts{FilterStaleUnassignedTrips: true})}
	}},
	{"nyctalerts", func() *gtfs.ParseRealtimeOptions {
		return &gtfs.ParseRealtimeOptions{Extension: nyctalerts.Extension(nyctalerts.ExtensionOpts{ElevatorAlertsDeduplicationPolicy: nyctalerts.DeduplicateInComplex, AddNyctMetadata: true, SkipTimetabledNoServiceAlerts: true})}
	}},
}

func c05AllConfigs() []extConfig {
	var out []extConfig
	for _, cfg := range c06Configs() {
		cfg := cfg
		out = append(out, extConfig{cfg.name, cfg.mk})
	}
	return out
}

var sweepWindows = [][2]time.Time{{farPast, farFuture}, {farFuture, farFuture.Add(time.Hour)}, {time.Unix(1700000000, 0), time.Unix(1700000000, 0)}}

// sweepRealtime exercises every accessor the statement lists on an accepted result.
func sweepRealtime(c *Ctx, r, other *gtfs.Realtime) {
	guardSig(c, "getters/Hash", func() {
		var nt *gtfs.Trip
		var nv *gtfs.Vehicle
		var nu *gtfs.StopTimeUpdate
		_ = nt.GetVehicle()
		_ = nv.GetID()
		_ = nv.GetTrip()
		_ = nu.GetArrival()
		_ = nu.GetDeparture()
		for i := range r.Trips {
			t := &r.Trips[i]
			_ = t.GetVehicle()
			t.Hash(&recHash{})
			for j := range t.StopTimeUpdates {
				_ = t.StopTimeUpdates[j].GetArrival()
				_ = t.StopTimeUpdates[j].GetDeparture()
			}
			if t.Vehicle != nil {
				t.Vehicle.Hash(&recHash{})
			}
		}
		for i := range r.Vehicles {
			v := &r.Vehicles[i]
			_ = v.GetID()
			_ = v.GetTrip()
			v.Hash(&recHash{})
			if v.Trip != nil {
				v.Trip.Hash(&recHash{})
			}
		}
	})
	// later versions of the same feed: every trip's update list shortened at the back / at
	// the front / emptied, 60 s later (shrinking, growing and re-appearing lists in the journal)
	head, tail, none := deriveFeed(r, 1), deriveFeed(r, 2), deriveFeed(r, 3)
	histories := [][]*gtfs.Realtime{{r}, {r, r}, {r, head}, {r, tail}, {head, r}, {tail, r}, {r, none, r}, {r, tail, head}}
	if other != nil {
		histories = append(histories, []*gtfs.Realtime{r, other}, []*gtfs.Realtime{other, r})
	}
	for _, h := range histories {
		for _, w := range sweepWindows {
			j, ok := buildJournalGuarded2(c, h, w[0], w[1])
			if !ok {
				return
			}
			if !guardSig(c, "ExportToCsv", func() { j.ExportToCsv() }) {
				return
			}
			c.Steps(1)
		}
	}
}

// deriveFeed returns a copy of r, one minute later, in which every trip's stop time updates
// are cut at the back (1), at the front (2) or removed (3).
func deriveFeed(r *gtfs.Realtime, mode int) *gtfs.Realtime {
	n := &gtfs.Realtime{CreatedAt: r.CreatedAt.Add(time.Minute), Vehicles: r.Vehicles, Alerts: r.Alerts}
	for i := range r.Trips {
		t := r.Trips[i]
		u := t.StopTimeUpdates
		switch {
		case mode == 1 && len(u) > 0:
			u = u[:len(u)-1]
		case mode == 2 && len(u) > 0:
			u = u[1:]
		case mode == 3:
			u = nil
		}
		t.StopTimeUpdates = append([]gtfs.StopTimeUpdate(nil), u...)
		n.Trips = append(n.Trips, t)
	}
	return n
}

func buildJournalGuarded2(c *Ctx, feeds []*gtfs.Realtime, start, end time.Time) (j *journalT, ok bool) {
	ok = guardSig(c, "BuildJournal", func() { j = buildJournal(feeds, start, end) })
	return
}

// otherFeed is a well-formed feed used as the second element of journal histories.
var otherFeedCache *gtfs.Realtime

func otherFeed() *gtfs.Realtime {
	if otherFeedCache == nil {
		ts := uint64(1700000300)
		m := newFeed(&ts)
		m.Entity = []*gtfsrt.FeedEntity{{Id: sp("o"), TripUpdate: &gtfsrt.TripUpdate{Trip: &gtfsrt.TripDescriptor{TripId: sp("063000_L..N01"), RouteId: sp("L"), StartDate: sp("20231114"), StartTime: sp("06:30:00")},
			Vehicle: &gtfsrt.VehicleDescriptor{Id: sp("veh")}, StopTimeUpdate: []*gtfsrt.TripUpdate_StopTimeUpdate{{StopId: sp("L01N")}, {StopId: sp("L02N")}}}}}
		r, err := gtfs.ParseRealtime(marshalFeed(m), &gtfs.ParseRealtimeOptions{})
		if err != nil {
			harnessBug("otherFeed: %v", err)
		}
		otherFeedCache = r
	}
	return otherFeedCache
}

// c05ParseRT parses b under every given configuration and sweeps accepted results.
func c05ParseRT(c *Ctx, b []byte, cfg extConfig) (accepted bool) {
	in := append([]byte(nil), b...)
	var r *gtfs.Realtime
	var err error
	if !guardSig(c, "ParseRealtime["+cfg.name+"]", func() { r, err = gtfs.ParseRealtime(in, cfg.mk()) }) {
		return false
	}
	c.Steps(1)
	if string(in) != string(b) {
		c.Fail("input-mutated", "ParseRealtime modified its input")
	}
	if err != nil {
		c.Outcome("error:" + digitsRe.ReplaceAllString(err.Error(), "N"))
		return false
	}
	if r == nil {
		c.Fail("nil-result-without-error", "ParseRealtime returned neither a result nor an error")
		return false
	}
	c.Outcome(dumpRealtime(r, rtDumpOpts{links: true}))
	sweepRealtime(c, r, otherFeed())
	return true
}

var wireAlphabet = []byte{0x0a, 0x12, 0x1a, 0x22, 0x2a, 0x08, 0x10, 0x18, 0x20, 0x00, 0x01, 0x02, 0x03, 0x05, 0x80, 0xff, 0x61, 0x31, 0x0d, 0x3a}

var validHeader = []byte{0x0a, 0x05, 0x0a, 0x03, '2', '.', '0'}

func c05Bytes(maxLen int) Harness {
	return func(c *Ctx) {
		cfg := c05ThreeConfigs[c.Free("extension", 3)]
		n := c.Free("length", maxLen+1)
		b := make([]byte, n)
		for i := range b {
			b[i] = byte(c.Free(fmt.Sprintf("byte[%d]", i), 256))
		}
		c.Input(hash64(string(b)+cfg.name), n > 0, func() string { return fmt.Sprintf("%s: % x", cfg.name, b) })
		if c05ParseRT(c, b, cfg) {
			c.Witness("accepted")
		}
	}
}

func c05Wire(maxLen int) Harness {
	return func(c *Ctx) {
		cfg := c05ThreeConfigs[c.Free("extension", 3)]
		framing := c.Free("framing", 4)
		n := c.Free("length", maxLen+1)
		body := make([]byte, n)
		for i := range body {
			body[i] = wireAlphabet[c.Free(fmt.Sprintf("byte[%d]", i), len(wireAlphabet))]
		}
		var b []byte
		switch framing {
		case 0:
			b = body
		case 1: // after a valid header
			b = append(append([]byte{}, validHeader...), body...)
		case 2: // inside a valid entity (id "a")
			b = append(append([]byte{}, validHeader...), 0x12, byte(3+len(body)), 0x0a, 0x01, 'a')
			b = append(b, body...)
		case 3: // inside a trip update with an empty trip descriptor
			b = append(append([]byte{}, validHeader...), 0x12, byte(3+2+2+len(body)), 0x0a, 0x01, 'a', 0x1a, byte(2+len(body)), 0x0a, 0x00)
			b = append(b, body...)
		}
		c.Input(hash64(string(b)+cfg.name), true, func() string { return fmt.Sprintf("%s framing=%d: % x", cfg.name, framing, b) })
		if c05ParseRT(c, b, cfg) {
			c.Witness("accepted")
		}
	}
}

// ---- (b) semantically bad messages

func c05BadMessage(c *Ctx) *gtfsrt.FeedMessage {
	strAlt := func(label string, alts ...string) *string {
		k := c.Choose(label, len(alts)+1)
		if k == len(alts) {
			return nil
		}
		s := alts[k]
		return &s
	}
	u64 := func(label string, alts ...uint64) *uint64 {
		k := c.Choose(label, len(alts)+1)
		if k == len(alts) {
			return nil
		}
		v := alts[k]
		return &v
	}
	m := newFeed(u64("header.timestamp", 1700000000, 0, 1<<63, ^uint64(0)))
	trip := func(p string, base string) *gtfsrt.TripDescriptor {
		d := &gtfsrt.TripDescriptor{}
		d.TripId = strAlt(p+"trip_id", base, "", "a", "12345", "123456", "999999_L..N", "000000_..N", strings.Repeat("x", 300))
		d.RouteId = strAlt(p+"route_id", "M", "", "L")
		d.StartTime = strAlt(p+"start_time", "06:30:00", "1:2:3", "24:00", "ab:cd:ef", "", "99:99:99")
		d.StartDate = strAlt(p+"start_date", "20231114", "2024", "20241301", "00000000", "99999999", "")
		if k := c.Choose(p+"direction_id", 4); k > 0 {
			v := []uint32{0, 1, 4294967295}[k-1]
			d.DirectionId = &v
		}
		switch c.Choose(p+"nyct", 6) {
		case 1:
			proto.SetExtension(d, gtfsrt.E_NyctTripDescriptor, &gtfsrt.NyctTripDescriptor{})
		case 2:
			t := true
			proto.SetExtension(d, gtfsrt.E_NyctTripDescriptor, &gtfsrt.NyctTripDescriptor{IsAssigned: &t})
		case 3:
			t := true
			proto.SetExtension(d, gtfsrt.E_NyctTripDescriptor, &gtfsrt.NyctTripDescriptor{IsAssigned: &t, TrainId: sp("")})
		case 4:
			proto.SetExtension(d, gtfsrt.E_NyctTripDescriptor, &gtfsrt.NyctTripDescriptor{TrainId: sp("06 0123+ PEL/BBR"), Direction: gtfsrt.NyctTripDescriptor_Direction(9).Enum()})
		case 5:
			f := false
			proto.SetExtension(d, gtfsrt.E_NyctTripDescriptor, &gtfsrt.NyctTripDescriptor{IsAssigned: &f, Direction: gtfsrt.NyctTripDescriptor_WEST.Enum()})
		}
		return d
	}
	stu := func(p string, stop string) *gtfsrt.TripUpdate_StopTimeUpdate {
		u := &gtfsrt.TripUpdate_StopTimeUpdate{}
		u.StopId = strAlt(p+"stop_id", stop, "", "M", "M11", "M11NN")
		switch c.Choose(p+"times", 5) {
		case 0:
			u.Arrival = &gtfsrt.TripUpdate_StopTimeEvent{Time: cp2(1700000100)}
		case 1:
		case 2:
			u.Arrival = &gtfsrt.TripUpdate_StopTimeEvent{}
			u.Departure = &gtfsrt.TripUpdate_StopTimeEvent{}
		case 3:
			u.Departure = &gtfsrt.TripUpdate_StopTimeEvent{Time: cp2(-1 << 63), Delay: cp(new(int32))}
		case 4:
			u.Arrival = &gtfsrt.TripUpdate_StopTimeEvent{Time: cp2(1<<63 - 1)}
		}
		switch c.Choose(p+"nyct", 3) {
		case 1:
			proto.SetExtension(u, gtfsrt.E_NyctStopTimeUpdate, &gtfsrt.NyctStopTimeUpdate{})
		case 2:
			proto.SetExtension(u, gtfsrt.E_NyctStopTimeUpdate, &gtfsrt.NyctStopTimeUpdate{ActualTrack: sp("")})
		}
		return u
	}
	vdesc := func(p string) *gtfsrt.VehicleDescriptor {
		switch c.Choose(p+"vehicle", 4) {
		case 0:
			return &gtfsrt.VehicleDescriptor{Id: sp("V1")}
		case 1:
			return nil
		case 2:
			return &gtfsrt.VehicleDescriptor{}
		}
		return &gtfsrt.VehicleDescriptor{Id: sp(""), Label: sp("")}
	}
	// entity 1: trip update
	tu := &gtfsrt.TripUpdate{Trip: trip("tu.", "063000_M..N01"), Vehicle: vdesc("tu.")}
	nst := []int{2, 0, 1, 3}[c.Choose("tu.stop_time_updates", 4)]
	for j := 0; j < nst; j++ {
		tu.StopTimeUpdate = append(tu.StopTimeUpdate, stu(fmt.Sprintf("tu.stu%d.", j), fmt.Sprintf("M1%dN", j+1)))
	}
	e1 := &gtfsrt.FeedEntity{Id: sp("e1"), TripUpdate: tu}
	// entity 2: vehicle position
	vp := &gtfsrt.VehiclePosition{Vehicle: vdesc("vp."), StopId: sp("M11N")}
	switch c.Choose("vp.trip", 3) {
	case 0:
		vp.Trip = trip("vp.", "063000_M..N01")
	case 2:
		vp.Trip = &gtfsrt.TripDescriptor{}
	}
	e2 := &gtfsrt.FeedEntity{Id: sp("e2"), Vehicle: vp}
	// entity 3: alert
	al := &gtfsrt.Alert{}
	switch c.Choose("alert.selectors", 5) {
	case 0:
		al.InformedEntity = []*gtfsrt.EntitySelector{{RouteId: sp("M")}}
	case 1:
	case 2:
		al.InformedEntity = []*gtfsrt.EntitySelector{{}}
	case 3:
		al.InformedEntity = []*gtfsrt.EntitySelector{{Trip: trip("alert.", "063000_M..N01")}}
	case 4:
		e := &gtfsrt.EntitySelector{RouteId: sp("M")}
		so := []string{":", "a:", ":99999999999999999999", "x:-1", ""}[c.Choose("alert.sort_order", 5)]
		proto.SetExtension(e, gtfsrt.E_MercuryEntitySelector, &gtfsrt.MercuryEntitySelector{SortOrder: &so})
		al.InformedEntity = []*gtfsrt.EntitySelector{e}
	}
	switch c.Choose("alert.mercury", 3) {
	case 1:
		proto.SetExtension(al, gtfsrt.E_MercuryAlert, &gtfsrt.MercuryAlert{CreatedAt: cp(new(uint64)), UpdatedAt: cp(new(uint64)), AlertType: sp("")})
	case 2:
		x := ^uint64(0)
		proto.SetExtension(al, gtfsrt.E_MercuryAlert, &gtfsrt.MercuryAlert{CreatedAt: &x, UpdatedAt: &x, AlertType: sp("t"), DisplayBeforeActive: &x, HumanReadableActivePeriod: &gtfsrt.TranslatedString{}})
	}
	if c.Choose("alert.period", 2) == 1 {
		x := ^uint64(0)
		al.ActivePeriod = []*gtfsrt.TimeRange{{Start: &x}, {}}
	}
	aid := []string{"alert1", "#EL", "N#EL1", "ab#EL", "A27N#EL", "A27N#EL1#EL2", "lmm:planned_work", "lmm:alert", ""}[c.Choose("alert.id", 9)]
	e3 := &gtfsrt.FeedEntity{Id: &aid, Alert: al}
	ents := []*gtfsrt.FeedEntity{e1, e2, e3}
	switch c.Choose("entity_shape", 6) {
	case 1: // entity without payload
		ents = append(ents, &gtfsrt.FeedEntity{Id: sp("empty")})
	case 2: // one entity with all three payloads
		ents = []*gtfsrt.FeedEntity{{Id: sp("all"), TripUpdate: tu, Vehicle: vp, Alert: al}}
	case 3: // conflicting duplicate trip update
		ents = append(ents, &gtfsrt.FeedEntity{Id: sp("dup"), TripUpdate: &gtfsrt.TripUpdate{Trip: proto.Clone(tu.Trip).(*gtfsrt.TripDescriptor), Vehicle: &gtfsrt.VehicleDescriptor{Id: sp("V2")}}})
	case 4: // duplicate elevator alert and duplicate vehicle
		ents = append(ents, &gtfsrt.FeedEntity{Id: &aid, Alert: &gtfsrt.Alert{}}, &gtfsrt.FeedEntity{Id: sp("e2b"), Vehicle: proto.Clone(vp).(*gtfsrt.VehiclePosition)})
	case 5:
		ents = nil
	}
	m.Entity = ents
	return m
}

func c05Semantic(cfgs []extConfig) Harness {
	return func(c *Ctx) {
		cfg := cfgs[c.Free("extension", len(cfgs))]
		m := c05BadMessage(c)
		b := marshalFeed(m)
		c.Input(hash64(string(b)+cfg.name), true, func() string { return cfg.name + "\n" + feedText(m) })
		if c05ParseRT(c, b, cfg) {
			c.Witness("accepted")
		}
	}
}

// ---- (c) byte-level faults on valid seeds

func substitutions(b byte) []byte {
	out := []byte{0x00, 0x01, 0x7f, 0x80, 0xff, b - 1, b + 1}
	for i := 0; i < 8; i++ {
		out = append(out, b^(1<<uint(i)))
	}
	return out
}

var rtSeedsCache [][]byte

func rtSeeds() [][]byte {
	if rtSeedsCache != nil {
		return rtSeedsCache
	}
	s := c06Feeds()[1:]
	s = append(s, marshalFeed(c06RealtimeFeed()))
	// the rich C02 base message (all defaults)
	g := genC02(&Ctx{}, true)
	s = append(s, marshalFeed(g.msg))
	rtSeedsCache = s
	return s
}

func c05ByteFaults(seeds func() [][]byte, parse func(c *Ctx, b []byte, variant int) bool, variants int) Harness {
	return func(c *Ctx) {
		sd := seeds()
		si := c.Free("seed", len(sd))
		seed := sd[si]
		variant := c.Free("configuration", variants)
		kind := c.Free("fault", 2)
		var b []byte
		var desc string
		if kind == 0 {
			n := c.Free("truncate_at", len(seed)+1)
			b = append([]byte{}, seed[:n]...)
			desc = fmt.Sprintf("seed %d (%d bytes) truncated to %d", si, len(seed), n)
		} else {
			off := c.Free("offset", len(seed))
			k := c.Free("substitution", 15)
			b = append([]byte{}, seed...)
			b[off] = substitutions(seed[off])[k]
			desc = fmt.Sprintf("seed %d (%d bytes): byte %d %02x -> %02x", si, len(seed), off, seed[off], b[off])
		}
		c.Input(hash64(string(b)+fmt.Sprint(variant)), true, func() string { return fmt.Sprintf("%s configuration %d\n% x", desc, variant, b) })
		if parse(c, b, variant) {
			c.Witness("accepted")
		}
	}
}

// ---- static

func sweepStatic(c *Ctx, r *gtfs.Static) {
	acyclic := true
	for i := range r.Stops {
		p := &r.Stops[i]
		steps := 0
		for p.Parent != nil {
			p = p.Parent
			steps++
			if steps > len(r.Stops) {
				acyclic = false
				c.Fail("hang:Stop.Root", "the stop hierarchy has a cycle: Stop.Root() of Stops[%d] would never return", i)
				break
			}
		}
	}
	guardSig(c, "accessors", func() {
		if acyclic {
			for i := range r.Stops {
				_ = r.Stops[i].Root()
			}
		}
		_ = dumpStatic(r, staticDumpOpts{})
	})
}

func c05ParseStatic(c *Ctx, b []byte, variant int) bool {
	in := append([]byte(nil), b...)
	var r *gtfs.Static
	var err error
	if !guardSig(c, "ParseStatic", func() {
		r, err = gtfs.ParseStatic(in, gtfs.ParseStaticOptions{InheritWheelchairBoarding: variant == 1})
	}) {
		return false
	}
	c.Steps(1)
	if string(in) != string(b) {
		c.Fail("input-mutated", "ParseStatic modified its input")
	}
	if err != nil {
		c.Outcome("error:" + digitsRe.ReplaceAllString(err.Error(), "N"))
		return false
	}
	if r == nil {
		c.Fail("nil-result-without-error", "ParseStatic returned neither a result nor an error")
		return false
	}
	c.Outcome(dumpStatic(r, staticDumpOpts{}))
	sweepStatic(c, r)
	return true
}

var numericCols = map[string][]string{
	"routes.txt": {"route_type", "route_sort_order", "continuous_pickup"}, "stops.txt": {"stop_lat", "stop_lon", "location_type", "wheelchair_boarding"},
	"transfers.txt": {"transfer_type", "min_transfer_time"}, "calendar.txt": {"monday", "start_date", "end_date"}, "calendar_dates.txt": {"date", "exception_type"},
	"shapes.txt": {"shape_pt_lat", "shape_pt_lon", "shape_pt_sequence", "shape_dist_traveled"}, "trips.txt": {"direction_id", "bikes_allowed"},
	"frequencies.txt": {"start_time", "end_time", "headway_secs", "exact_times"}, "stop_times.txt": {"arrival_time", "departure_time", "stop_sequence", "pickup_type", "shape_dist_traveled", "timepoint"},
}

var requiredCols = map[string][]string{
	"agency.txt": {"agency_name", "agency_url", "agency_timezone"}, "routes.txt": {"route_id", "route_type"}, "stops.txt": {"stop_id"}, "transfers.txt": {"from_stop_id", "to_stop_id"},
	"calendar.txt": {"service_id", "monday", "sunday", "start_date", "end_date"}, "calendar_dates.txt": {"service_id", "date", "exception_type"},
	"shapes.txt": {"shape_id", "shape_pt_lat", "shape_pt_lon", "shape_pt_sequence"}, "trips.txt": {"route_id", "service_id", "trip_id"},
	"frequencies.txt": {"trip_id", "start_time", "end_time", "headway_secs"}, "stop_times.txt": {"stop_id", "stop_sequence", "trip_id"},
}

// c05StaticStructural: per file a menu of structural faults; <= k files faulted at once.
func c05StaticStructural(c *Ctx) {
	m := genStaticFeedN(c, false, baseCounts, nil, nil)
	var members []rawMember
	var applied []string
	for _, t := range m.Tables {
		var menu []string
		for _, col := range requiredCols[t.File] {
			menu = append(menu, "drop:"+col)
		}
		for _, col := range numericCols[t.File] {
			menu = append(menu, "nonnumeric:"+col, "huge:"+col, "negative:"+col)
		}
		menu = append(menu, "header-only", "empty-member", "member-missing", "bom-only", "lone-quote", "row-too-long", "row-too-short", "nul-bytes", "duplicate-header", "all-blank-row", "only-newlines", "no-trailing-newline-and-quote", "all-cells-blank")
		k := c.Choose(t.File, len(menu)+1)
		if k == 0 {
			members = append(members, rawMember{t.File, renderCSV(t, presentation{})})
			continue
		}
		f := menu[k-1]
		applied = append(applied, t.File+":"+f)
		tt := t.clone()
		content := []byte(nil)
		switch {
		case strings.HasPrefix(f, "drop:"):
			tt.dropCol(f[5:])
			content = renderCSV(tt, presentation{})
		case strings.HasPrefix(f, "nonnumeric:"):
			for r := range tt.Rows {
				tt.set(r, f[11:], []string{"abc", "1x", "--", "١٢", " "}[r%5])
			}
			content = renderCSV(tt, presentation{})
		case strings.HasPrefix(f, "huge:"):
			for r := range tt.Rows {
				tt.set(r, f[5:], []string{"99999999999999999999999", "1e400", "9223372036854775808:00:00"}[r%3])
			}
			content = renderCSV(tt, presentation{})
		case strings.HasPrefix(f, "negative:"):
			for r := range tt.Rows {
				tt.set(r, f[9:], []string{"-1", "-0", "-99:-1:-1"}[r%3])
			}
			content = renderCSV(tt, presentation{})
		case f == "header-only":
			tt.Rows = nil
			content = renderCSV(tt, presentation{})
		case f == "empty-member":
			content = []byte{}
		case f == "member-missing":
			continue
		case f == "bom-only":
			content = []byte("\xEF\xBB\xBF")
		case f == "lone-quote":
			content = append(renderCSV(tt, presentation{}), []byte("\"\n")...)
		case f == "row-too-long":
			content = append(renderCSV(tt, presentation{}), []byte(strings.Repeat("x,", len(tt.Cols)+2)+"x\n")...)
		case f == "row-too-short":
			content = append(renderCSV(tt, presentation{}), []byte("x\n")...)
		case f == "nul-bytes":
			for r := range tt.Rows {
				tt.Rows[r][0] = "a\x00b"
				tt.Rows[r][len(tt.Cols)-1] = "\x00"
			}
			content = renderCSV(tt, presentation{})
		case f == "duplicate-header":
			tt.Cols = append(tt.Cols, tt.Cols[0])
			for r := range tt.Rows {
				tt.Rows[r] = append(tt.Rows[r], "dup")
			}
			content = renderCSV(tt, presentation{})
		case f == "all-blank-row":
			content = append(renderCSV(tt, presentation{}), []byte(strings.Repeat(",", len(tt.Cols)-1)+"\n")...)
		case f == "only-newlines":
			content = []byte("\n\n\r\n")
		case f == "no-trailing-newline-and-quote":
			content = append(renderCSV(tt, presentation{NoTrailingNL: true}), '"')
		case f == "all-cells-blank":
			for r := range tt.Rows {
				for i := range tt.Rows[r] {
					tt.Rows[r][i] = ""
				}
			}
			content = renderCSV(tt, presentation{})
		}
		members = append(members, rawMember{t.File, content})
	}
	b := buildZip(members, false)
	c.Input(hash64(string(b)), len(applied) > 0, func() string { return fmt.Sprint(applied) })
	if c05ParseStatic(c, b, c.Choose("inherit", 2)) {
		c.Witness("accepted")
	}
}

// nastyValues are written into every cell of one column at a time (every column of every file).
var nastyValues = []string{"1:2:3:4", "::::", ":", "1::", "1:2:3:4:5:6:7:8:9", "10:00:00:00", "-", "+", ".", "e", "1e309", "-1e-999", "NaN", "Inf", "0x10", "١٢:٣٤:٥٦", "\u00a0",
	"99999999999999999999", "-99999999999999999999", "99999999999999999999:99:99", "2024-01-01", "20240230", "00000000", "99999999", " 1 ", "1 2", "\t", "\x7f", strings.Repeat("9", 400)}

// c05NastyCells: one column of one file gets a nasty value in all rows (or in the first, or the
// last row only); every column x every value x 3 placements.
func c05NastyCells(c *Ctx) {
	m := genStaticFeedN(c, false, baseCounts, nil, nil)
	var cols [][2]string
	for _, t := range m.Tables {
		for _, col := range t.Cols {
			cols = append(cols, [2]string{t.File, col})
		}
	}
	ci := c.Free("column", len(cols))
	v := nastyValues[c.Free("value", len(nastyValues))]
	where := c.Free("rows", 3)
	t := m.t(cols[ci][0])
	for r := range t.Rows {
		if where == 0 || (where == 1 && r == 0) || (where == 2 && r == len(t.Rows)-1) {
			t.set(r, cols[ci][1], v)
		}
	}
	b := renderFeed(m, presentation{})
	c.Input(hash64(string(b)), true, func() string { return fmt.Sprintf("%s.%s = %q (rows: %d)", cols[ci][0], cols[ci][1], v, where) })
	if c05ParseStatic(c, b, 0) {
		c.Witness("accepted")
	}
}

var csvAlphabet = []byte{'a', '1', ',', '"', '\n', '\r', ' ', ':'}

func c05CsvBodies(maxLen int) Harness {
	return func(c *Ctx) {
		m := genStaticFeedN(c, false, baseCounts, nil, nil)
		fi := c.Free("file", len(m.Tables))
		n := c.Free("length", maxLen+1)
		body := make([]byte, n)
		for i := range body {
			body[i] = csvAlphabet[c.Free(fmt.Sprintf("char[%d]", i), len(csvAlphabet))]
		}
		var members []rawMember
		for i, t := range m.Tables {
			content := renderCSV(t, presentation{})
			if i == fi {
				tt := t.clone()
				tt.Rows = tt.Rows[:1]
				content = append(renderCSV(tt, presentation{}), body...)
			}
			members = append(members, rawMember{t.File, content})
		}
		b := buildZip(members, false)
		c.Input(hash64(string(b)), n > 0, func() string { return fmt.Sprintf("%s: header + 1 valid row + body %q", m.Tables[fi].File, body) })
		if c05ParseStatic(c, b, 0) {
			c.Witness("accepted")
		}
	}
}

var staticSeedsCache [][]byte

func staticSeeds(n int) func() [][]byte {
	return func() [][]byte {
		if staticSeedsCache == nil {
			small := staticCounts{agencies: 1, routes: 1, stops: 2, transfers: 1, calendars: 1, calendarDates: 1, shapes: 1, shapePoints: 1, trips: 1, frequencies: 1, stopTimes: 2}
			ms := genStaticFeedN(&Ctx{}, false, small, nil, nil)
			mb := genStaticFeedN(&Ctx{}, false, baseCounts, nil, nil)
			minimal := &feedModel{}
			for _, t := range ms.Tables {
				switch t.File {
				case "agency.txt", "routes.txt", "stops.txt", "trips.txt", "stop_times.txt", "calendar.txt":
					minimal.Tables = append(minimal.Tables, t)
				}
			}
			staticSeedsCache = [][]byte{
				renderFeed(ms, presentation{}), renderFeed(ms, presentation{Deflate: true}),
				renderFeed(minimal, presentation{}), renderFeed(minimal, presentation{Deflate: true, BOM: true, CRLF: true}),
				renderFeed(mb, presentation{Deflate: true, QuoteAll: true}), renderFeed(mb, presentation{ExtraFile: true, ReverseFiles: true}),
			}
		}
		return staticSeedsCache[:n]
	}
}

func init() {
	register(&Check{
		ID:    "C05",
		Level: "fault_enumeration",
		Rule: "realtime: all byte strings <= 2 (thorough 3) bytes and all strings <= 4 (thorough 5) over a 20-byte wire alphabet in 4 framings (raw, after a valid header, inside an entity, inside a trip update) x 3 extension configurations; semantically malformed messages within k deviations (quick 2, thorough 3) x all 38 extension configurations; every truncation and every single-byte substitution (15 values) of 7 valid seed messages x 3 configurations; accessor sweep (getters, hashes, journals over 10 histories x 3 windows, CSV export) on every accepted result. " +
			"static: structural faults per table (k <= 2 tables at once), the product of colliding stop ids x parent_station values over 0..3 rows (cycles, duplicates, blank and dangling ids), three stops x parent {none, previous, next, dangling} x location type {blank, 1, 2, 4} with and without the inheritance option, every column of every file x 29 nasty values (4-field and empty-field times, non-ASCII digits, huge / special numbers, impossible dates, control characters, a 400-digit number) x 3 row placements, all CSV bodies <= 4 (thorough 6) over an 8-character alphabet appended to each of the 10 files, every truncation and single-byte substitution of 2 (thorough 6) seed archives; accessor sweep (acyclicity, Root(), pointer walk). " +
			"non-trivial = distinct inputs other than the empty string; oracle = no panic, no worker death, no 60 s stall",
		Assumptions: []string{"resource use proportional to the decompressed input is out of scope", "a nil *ParseRealtimeOptions is API misuse, not an input", "panic signatures normalise numbers so that one defect is one finding"},
		Scenarios: func(tier string) []*Scenario {
			bl, wl, k, cl, ns := 2, 4, 2, 4, 2
			if tier == "thorough" {
				bl, wl, k, cl, ns = 3, 5, 3, 6, 6
			}
			return []*Scenario{
				{Name: fmt.Sprintf("rt/all-bytes<=%d", bl), Bound: -1, Run: c05Bytes(bl)},
				{Name: fmt.Sprintf("rt/wire-alphabet<=%d", wl), Bound: -1, Run: c05Wire(wl)},
				{Name: "rt/semantic", Bound: k, Run: c05Semantic(c05AllConfigs())},
				{Name: "rt/byte-faults", Bound: -1, Run: c05ByteFaults(rtSeeds, func(c *Ctx, b []byte, v int) bool { return c05ParseRT(c, b, c05ThreeConfigs[v]) }, 3)},
				{Name: "static/structural", Bound: 2, Run: c05StaticStructural},
				{Name: "static/stop-hierarchies", Bound: -1, Run: func(c *Ctx) {
					// the C03 product of colliding stop ids and parents (self, mutual and longer cycles,
					// duplicates, blank and dangling ids): Root() of every stop must terminate
					m, n, desc := c03StopsModel(c, 3)
					c.SetMapRotation(c.Free("map_rotation", 2))
					b := renderFeed(m, presentation{})
					c.Input(hash64(string(b)), n >= 2, func() string { return desc })
					if c05ParseStatic(c, b, c.Free("inherit", 2)) {
						c.Witness("accepted")
					}
					c.SetMapMode(mapFixed)
				}},
				{Name: "static/typed-stop-hierarchies", Bound: -1, Run: func(c *Ctx) {
					// three stops x parent {none, previous, next, dangling} x location type {blank, station, entrance,
					// boarding area}: typed stops whose parent is missing, dangling or cut out of a cycle
					m, desc := c03TypedStopsModel(c)
					b := renderFeed(m, presentation{})
					inherit := c.Free("inherit", 2)
					c.Input(hash64(string(b)+fmt.Sprint(inherit)), true, func() string { return fmt.Sprintf("inherit=%d %s", inherit, desc) })
					if c05ParseStatic(c, b, inherit) {
						c.Witness("accepted")
					}
				}},
				{Name: "static/nasty-cells", Bound: -1, Run: c05NastyCells},
				{Name: fmt.Sprintf("static/csv-bodies<=%d", cl), Bound: -1, Run: c05CsvBodies(cl)},
				{Name: "static/container-faults", Bound: -1, Run: c05ByteFaults(staticSeeds(ns), c05ParseStatic, 1)},
			}
		},
	})
}
