package main

// C14 - the journal keeps passed stops and tracks the latest prediction for the rest.
//
// Enumerated (histories): one trip; a feed either omits the trip, carries it unassigned, or
// carries it assigned with an update list - every list over stops {A,B,C} of length <= 3,
// repeats included (40 lists): 42 feed symbols. Every stop time carries feed-unique arrival /
// departure / track values (optionally all absent). Shallow tier: EVERY history of <= 3
// feeds (thorough <= 4), stateless; the journal of every prefix is built. Deep tier: explicit-
// state breadth-first search to the fixpoint over histories whose first feed assigns the trip,
// deduplicating on (list of (stop id, marked past?), trip marked past?).
// Oracle: a nondeterministic specification automaton written from the statement. On a feed
// that applies update U at time t the new list must be mark(L[:i], t) ++ mirror(U, t) for
// some i; if U's first stop occurs in L, i must be one of its occurrences (which one is left
// open); otherwise any prefix may be kept. A feed without the trip marks every unmarked
// entry with t; an ignored update changes nothing. While the trip is not yet visible in the
// journal (never assigned) the automaton tracks the SET of admissible lists.

import (
	"fmt"
	"strings"
	"time"

	"github.com/jamespfennell/gtfs"
	"github.com/jamespfennell/gtfs/journal"
	gtfsrt "github.com/jamespfennell/gtfs/proto"
)

type sliceSource struct {
	feeds []*gtfs.Realtime
	i     int
}

func (s *sliceSource) Next() *gtfs.Realtime {
	if s.i >= len(s.feeds) {
		return nil
	}
	s.i++
	return s.feeds[s.i-1]
}

var c14Lists [][]string

func init() {
	stops := []string{"A", "B", "C"}
	c14Lists = append(c14Lists, []string{})
	var rec func(prefix []string, n int)
	rec = func(prefix []string, n int) {
		if n == 0 {
			c14Lists = append(c14Lists, append([]string{}, prefix...))
			return
		}
		for _, s := range stops {
			rec(append(prefix, s), n-1)
		}
	}
	for n := 1; n <= 3; n++ {
		rec(nil, n)
	}
}

// feed symbols: 0 = trip omitted, 1 = unassigned with list [A,B], 2.. = assigned with c14Lists[k-2]
const c14Symbols = 42

const c14T0 = 1700000000

var c14Start = time.Unix(c14T0-3600, 0).UTC()

// feedTimeScheme: 0 feeds 60 s apart; 1 all feeds carry the same timestamp; 2 no feed carries a
// timestamp (CreatedAt is the zero time); 3 timestamps decrease. Set per execution.
var feedTimeScheme int

// c14InMessage: value of IsEntityInMessage on the trips of the feeds (what the journal records does not depend on it)
var c14NotInMessage bool

// c14OtherEntities: every feed also carries a vehicle position and an alert that have nothing to do with
// the trip (a feed without trips is then not an empty feed)
var c14OtherEntities bool

func c14FeedTime(k int) time.Time {
	switch feedTimeScheme {
	case 1:
		return time.Unix(int64(c14T0), 0).UTC()
	case 2:
		return time.Time{}
	case 3:
		return time.Unix(int64(c14T0-60*k), 0).UTC()
	}
	return time.Unix(int64(c14T0+60*k), 0).UTC()
}

type specStop struct {
	stop     string
	arr, dep *time.Time
	track    *string
	lastObs  time.Time
	marked   *time.Time
}

func (s specStop) String() string {
	return fmt.Sprintf("stop=%q arr=%s dep=%s track=%s lastObserved=%s markedPast=%s", s.stop, fmtTimePtr(s.arr), fmtTimePtr(s.dep), fmtStrPtr(s.track), fmtTime(s.lastObs), fmtTimePtr(s.marked))
}

func specListString(l []specStop) string {
	var sb strings.Builder
	for i, s := range l {
		fmt.Fprintf(&sb, "[%d] %s\n", i, s)
	}
	return sb.String()
}

// c14Feed builds feed number k for symbol sym.
// value schemes: 0 every value unique per feed; 1 all optional values absent; 2 times constant
// across feeds, track unique; 3 track constant, times unique; 4 everything constant; 5 as 0 but
// every update of every feed after the first is flagged NO_DATA, 6 as 0 but SKIPPED (the
// journal records what the update carries whatever its schedule relationship); 7 as 0 but after the first
// feed every event carries a delay and no time (the entry then has no time); 8 as 0 but the first update
// of every list carries a stop_sequence and the others none (the list keeps the order of the update); 9 as 0 but every
// departure lies before its arrival
func c14Feed(k, sym int, absentValues bool) (*gtfs.Realtime, []specStop) {
	scheme := 0
	if absentValues {
		scheme = 1
	}
	return c14FeedScheme(k, sym, scheme)
}

func c14FeedScheme(k, sym int, scheme int) (*gtfs.Realtime, []specStop) {
	return c14FeedList(k, sym, scheme, nil)
}

// c14FeedList: as c14FeedScheme; a non-nil stops list replaces the symbol's list (stop ids of
// the form "Snn" then; the symbol still says whether the trip is assigned).
func c14FeedList(k, sym int, scheme int, stops []string) (*gtfs.Realtime, []specStop) {
	absentValues := scheme == 1
	kt, ktr := k, k // feed index used for times / for tracks
	if scheme == 2 || scheme == 4 {
		kt = 0
	}
	if scheme == 3 || scheme == 4 {
		ktr = 0
	}
	t := c14FeedTime(k)
	f := &gtfs.Realtime{CreatedAt: t}
	if c14OtherEntities {
		f.Vehicles = []gtfs.Vehicle{{ID: &gtfs.VehicleID{ID: "some other vehicle"}, IsEntityInMessage: true}}
		f.Alerts = []gtfs.Alert{{ID: "some alert"}}
	}
	if sym == 0 {
		return f, nil
	}
	list := []string{"A", "B"}
	if sym >= 2 {
		list = c14Lists[sym-2]
	}
	if stops != nil {
		list = stops
	}
	trip := gtfs.Trip{ID: gtfs.TripID{ID: "063000_L..N01", RouteID: "L", DirectionID: gtfs.DirectionID_True, HasStartDate: true, StartDate: c14Start.Add(-6*time.Hour - 30*time.Minute),
		HasStartTime: true, StartTime: 6*time.Hour + 30*time.Minute}, IsEntityInMessage: !c14NotInMessage}
	if sym >= 2 {
		trip.Vehicle = &gtfs.Vehicle{ID: &gtfs.VehicleID{ID: "veh1"}}
	}
	var mirror []specStop
	for j, s := range list {
		s := s
		u := gtfs.StopTimeUpdate{StopID: &s}
		sp := specStop{stop: s, lastObs: t}
		if !absentValues {
			// keyed by stop, not by position, so that the same stop keeps its values when the
			// list shrinks from the front
			sj := int(s[0] - 'A')
			if stops != nil {
				sj = 0
				if n, _ := fmt.Sscanf(s, "S%d", &sj); n != 1 {
					sj = int(s[0] - 'A')
				}
			}
			_ = j
			a := time.Unix(int64(c14T0+60*kt+1000+10*sj), 0).UTC()
			d := time.Unix(int64(c14T0+60*kt+2000+10*sj), 0).UTC()
			if scheme == 9 {
				d = time.Unix(int64(c14T0+60*kt+500+10*sj), 0).UTC() // the departure lies before the arrival: recorded as sent
			}
			tr := fmt.Sprintf("trk%d.%d", ktr, sj)
			u.Arrival = &gtfs.StopTimeEvent{Time: &a}
			u.Departure = &gtfs.StopTimeEvent{Time: &d}
			u.NyctTrack = &tr
			sp.arr, sp.dep, sp.track = &a, &d, &tr
		}
		if k > 0 && scheme == 7 && !absentValues {
			d := 45 * time.Second
			u.Arrival = &gtfs.StopTimeEvent{Delay: &d}
			u.Departure = &gtfs.StopTimeEvent{Delay: &d}
			sp.arr, sp.dep = nil, nil
		}
		if scheme == 8 && j == 0 {
			nine := uint32(9)
			u.StopSequence = &nine // the current stop is given with its sequence number, the following ones by id only
		}
		if k > 0 && scheme == 5 {
			u.ScheduleRelationship = gtfsrt.TripUpdate_StopTimeUpdate_NO_DATA
		}
		if k > 0 && scheme == 6 {
			u.ScheduleRelationship = gtfsrt.TripUpdate_StopTimeUpdate_SKIPPED
		}
		trip.StopTimeUpdates = append(trip.StopTimeUpdates, u)
		mirror = append(mirror, sp)
	}
	f.Trips = []gtfs.Trip{trip}
	return f, mirror
}

func markAll(l []specStop, t time.Time) []specStop {
	out := make([]specStop, len(l))
	for i, s := range l {
		if s.marked == nil {
			tt := t
			s.marked = &tt
		}
		out[i] = s
	}
	return out
}

// specApply returns every list the statement admits after applying update U at time t to L.
func specApply(L []specStop, U []specStop, t time.Time) [][]specStop {
	var cuts []int
	if len(U) > 0 {
		for i, s := range L {
			if s.stop == U[0].stop {
				cuts = append(cuts, i)
			}
		}
	}
	if len(cuts) == 0 {
		for i := 0; i <= len(L); i++ {
			cuts = append(cuts, i)
		}
	}
	var out [][]specStop
	for _, i := range cuts {
		n := markAll(L[:i], t)
		n = append(n, U...)
		out = append(out, n)
	}
	return out
}

func observedList(j *journal.Journal) ([]specStop, *journal.Trip, bool) {
	// the trip under study (a companion trip, where a scenario adds one, has another id)
	var t *journal.Trip
	for i := range j.Trips {
		if j.Trips[i].TripID == "063000_L..N01" {
			t = &j.Trips[i]
		}
	}
	if t == nil {
		return nil, nil, false
	}
	var l []specStop
	for i := range t.StopTimes {
		s := &t.StopTimes[i]
		l = append(l, specStop{stop: s.StopID, arr: s.ArrivalTime, dep: s.DepartureTime, track: s.Track, lastObs: s.LastObserved, marked: s.MarkedPast})
	}
	return l, t, true
}

func buildJournalGuarded(c *Ctx, feeds []*gtfs.Realtime, start, end time.Time) (*journal.Journal, bool) {
	var j *journal.Journal
	pan, where, text, stack := guard(func() { j = journal.BuildJournal(&sliceSource{feeds: feeds}, start, end) })
	if pan {
		c.Fail("panic:"+where+":"+text, "BuildJournal panicked: %s\n%s", text, stack)
		return nil, false
	}
	return j, true
}

var farPast = time.Unix(0, 0).UTC()
var farFuture = time.Unix(4000000000, 0).UTC()

// c14Step advances the specification automaton over one feed and compares with the journal
// built from the real code for the history so far. cands is the set of admissible lists.
type c14State struct {
	cands    [][]specStop
	assigned bool
	active   bool
	seen     bool
}

func (st *c14State) step(c *Ctx, k, sym int, mirror []specStop, feeds []*gtfs.Realtime, hist string) bool {
	t := c14FeedTime(k)
	switch {
	case sym == 0:
		if st.active {
			for i := range st.cands {
				st.cands[i] = markAll(st.cands[i], t)
			}
		}
		st.active = false
	case st.assigned && sym == 1:
		// an update without vehicle for a trip already seen with one: ignored
		st.active = true
	default:
		if !st.seen {
			st.cands = [][]specStop{nil}
			st.seen = true
		}
		var next [][]specStop
		for _, L := range st.cands {
			next = append(next, specApply(L, mirror, t)...)
		}
		st.cands = next
		st.active = true
		if sym >= 2 {
			st.assigned = true
		}
	}
	j, ok := buildJournalGuarded(c, feeds[:k+1], farPast, farFuture)
	if !ok {
		return false
	}
	c.Steps(1)
	obs, _, visible := observedList(j)
	if !st.assigned {
		if visible {
			c.Fail("unassigned-trip-in-journal", "history %s: the trip never had a vehicle but is in the journal", hist)
			return false
		}
		return true
	}
	if !visible {
		c.Fail("assigned-trip-missing", "history %s: the trip was seen with a vehicle but is not in the journal", hist)
		return false
	}
	got := specListString(obs)
	for _, cand := range st.cands {
		if specListString(cand) == got {
			st.cands = [][]specStop{obs}
			return true
		}
	}
	var adm []string
	for _, cand := range st.cands {
		adm = append(adm, specListString(cand))
	}
	c.Fail(c14Signature(st.cands, obs), "history %s: after feed %d the stop-time list is not one the statement admits\ngot:\n%sadmissible (%d):\n%s", hist, k, got, len(adm), strings.Join(adm, "--or--\n"))
	return false
}

// c14Signature classifies a mismatch: wrong stops (length / ids), or right stops with wrong
// payload / marks.
func c14Signature(cands [][]specStop, obs []specStop) string {
	ids := func(l []specStop) string {
		var s []string
		for _, x := range l {
			s = append(s, x.stop)
		}
		return strings.Join(s, "")
	}
	for _, cand := range cands {
		if ids(cand) == ids(obs) {
			for i := range cand {
				if cand[i].String() != obs[i].String() {
					switch {
					case fmtTimePtr(cand[i].marked) != fmtTimePtr(obs[i].marked):
						return "journal-list:marked-past"
					case fmtTime(cand[i].lastObs) != fmtTime(obs[i].lastObs):
						return "journal-list:last-observed"
					default:
						return "journal-list:values"
					}
				}
			}
		}
	}
	return "journal-list:stops"
}

func symName(sym int) string {
	switch {
	case sym == 0:
		return "-"
	case sym == 1:
		return "u[AB]"
	}
	return "a[" + strings.Join(c14Lists[sym-2], "") + "]"
}

func c14Shallow(maxLen int) Harness {
	return func(c *Ctx) {
		n := 1 + c.Free("history_length", maxLen)
		var syms []int
		for k := 0; k < n; k++ {
			syms = append(syms, c.Free(fmt.Sprintf("feed[%d]", k), c14Symbols))
		}
		scheme := c.Choose("value_scheme", 10)
		feedTimeScheme = c.Choose("feed_time_scheme", 4)
		c14NotInMessage = c.Choose("trips_not_backed_by_an_entity_of_their_own", 2) == 1
		c14OtherEntities = c.Choose("every_feed_also_carries_an_unrelated_vehicle_and_alert", 2) == 1
		defer func() { feedTimeScheme = 0; c14NotInMessage = false; c14OtherEntities = false }()
		absent := scheme == 1
		var names []string
		for _, s := range syms {
			names = append(names, symName(s))
		}
		hist := strings.Join(names, " ")
		c.Input(hash64(hist+fmt.Sprint(scheme, feedTimeScheme, c14NotInMessage, c14OtherEntities)), n >= 2, func() string {
			return fmt.Sprintf("history: %s (value scheme %d: 0 unique per feed, 1 optional values absent, 2 times constant/track changes, 3 track constant/times change, 4 all constant; feed time scheme %d: 0 increasing, 1 all equal, 2 no timestamps, 3 decreasing)", hist, scheme, feedTimeScheme)
		})
		_ = absent
		var feeds []*gtfs.Realtime
		var mirrors [][]specStop
		for k, s := range syms {
			f, m := c14FeedScheme(k, s, scheme)
			feeds = append(feeds, f)
			mirrors = append(mirrors, m)
		}
		st := &c14State{}
		for k, s := range syms {
			if !st.step(c, k, s, mirrors[k], feeds, hist) {
				return
			}
		}
		if len(st.cands) == 1 {
			c.Outcome(specListString(st.cands[0]))
			marked, repeat := false, false
			seen := map[string]bool{}
			for _, x := range st.cands[0] {
				if x.marked != nil {
					marked = true
				}
				if seen[x.stop] {
					repeat = true
				}
				seen[x.stop] = true
			}
			if marked {
				c.Witness("list_with_passed_stops")
			}
			if repeat {
				c.Witness("stop_occurs_twice_in_list")
			}
		}
	}
}

// c14TwoTrips: the trip under study next to a companion trip that comes and goes on its own
// (present / absent per feed), over the lists of <= 2 stops from {A,B}; optionally with stop ids
// that differ only in a trailing direction letter (A = M11N, B = M11S). What happens to one trip
// must not depend on the other.
var c14SmallLists = [][]string{{}, {"A"}, {"B"}, {"A", "B"}, {"B", "A"}, {"A", "A"}, {"B", "B"}}

func c14TwoTrips(maxLen int) Harness {
	return func(c *Ctx) {
		h := 1 + c.Free("history_length", maxLen)
		names := c.Free("stop_ids", 2) // 0: A, B; 1: M11N, M11S
		rename := map[string]string{"A": "A", "B": "B"}
		if names == 1 {
			rename = map[string]string{"A": "M11N", "B": "M11S"}
		}
		var syms, comp []int
		var hn []string
		for k := 0; k < h; k++ {
			s := c.Free(fmt.Sprintf("feed[%d]", k), 2+len(c14SmallLists))
			p := c.Free(fmt.Sprintf("feed[%d].companion_present", k), 2)
			syms, comp = append(syms, s), append(comp, p)
			n := "omitted"
			if s == 1 {
				n = "unassigned"
			} else if s >= 2 {
				n = fmt.Sprint(c14SmallLists[s-2])
			}
			hn = append(hn, fmt.Sprintf("%s/companion=%d", n, p))
		}
		hist := fmt.Sprintf("stop ids %d: %s", names, strings.Join(hn, " -> "))
		c.Input(hash64(hist), h >= 2, func() string { return hist })
		var feeds []*gtfs.Realtime
		var mirrors [][]specStop
		var specSyms []int
		for k, s := range syms {
			sym := s
			var stops []string
			if s >= 2 {
				sym = 2
				stops = c14SmallLists[s-2]
			}
			f, m := c14FeedList(k, sym, 0, stops)
			// rename the stops in the feed and in the mirror alike
			for ti := range f.Trips {
				for ui := range f.Trips[ti].StopTimeUpdates {
					v := rename[*f.Trips[ti].StopTimeUpdates[ui].StopID]
					f.Trips[ti].StopTimeUpdates[ui].StopID = &v
				}
			}
			for i := range m {
				m[i].stop = rename[m[i].stop]
			}
			if comp[k] == 1 {
				x := "X"
				f.Trips = append(f.Trips, gtfs.Trip{ID: gtfs.TripID{ID: "070000_L..N02", RouteID: "L", DirectionID: gtfs.DirectionID_True, HasStartDate: true, StartDate: c14Start.Add(-7 * time.Hour),
					HasStartTime: true, StartTime: 7 * time.Hour}, Vehicle: &gtfs.Vehicle{ID: &gtfs.VehicleID{ID: "veh2"}}, StopTimeUpdates: []gtfs.StopTimeUpdate{{StopID: &x}}, IsEntityInMessage: true})
			}
			feeds = append(feeds, f)
			mirrors = append(mirrors, m)
			specSyms = append(specSyms, sym)
		}
		st := &c14State{}
		for k := range syms {
			if !st.step(c, k, specSyms[k], mirrors[k], feeds, hist) {
				return
			}
		}
		if len(st.cands) == 1 {
			c.Outcome(specListString(st.cands[0]))
		}
		c.Witness("trip_next_to_a_companion_trip")
	}
}

// c14LongLists: lists of 9..65 stops. Feed symbols are windows of the universe S00..S(n-1):
// everything, everything but the first, the second half, the last stop, the first half (the
// list shrinks at the back), everything + 3 new stops, the second half + 3 new stops, nothing,
// and "trip omitted"; all histories of <= 3 feeds.
var c14LongSizes = []int{9, 17, 33, 65}
var c14WindowNames = []string{"omitted", "all", "all-but-first", "second-half", "last", "first-half", "all+3-new", "second-half+3-new", "no-stops"}

func c14Window(n, w int) []string {
	var all []string
	for i := 0; i < n; i++ {
		all = append(all, fmt.Sprintf("S%02d", i))
	}
	extra := []string{fmt.Sprintf("S%02d", n), fmt.Sprintf("S%02d", n+1), fmt.Sprintf("S%02d", n+2)}
	switch w {
	case 1:
		return all
	case 2:
		return all[1:]
	case 3:
		return all[n/2:]
	case 4:
		return all[n-1:]
	case 5:
		return all[:n/2]
	case 6:
		return append(all, extra...)
	case 7:
		return append(append([]string{}, all[n/2:]...), extra...)
	}
	return []string{}
}

func c14LongLists(maxLen int) Harness {
	return func(c *Ctx) {
		n := c14LongSizes[c.Free("stops", len(c14LongSizes))]
		h := 1 + c.Free("history_length", maxLen)
		var ws []int
		var names []string
		for k := 0; k < h; k++ {
			w := c.Free(fmt.Sprintf("feed[%d]", k), len(c14WindowNames))
			ws = append(ws, w)
			names = append(names, c14WindowNames[w])
		}
		hist := fmt.Sprintf("%d stops: %s", n, strings.Join(names, " -> "))
		c.Input(hash64(hist), h >= 2, func() string { return hist })
		var feeds []*gtfs.Realtime
		var mirrors [][]specStop
		for k, w := range ws {
			sym := 2
			var stops []string
			if w == 0 {
				sym = 0
			} else {
				stops = c14Window(n, w)
			}
			f, m := c14FeedList(k, sym, 0, stops)
			feeds = append(feeds, f)
			mirrors = append(mirrors, m)
		}
		st := &c14State{}
		for k, w := range ws {
			sym := 2
			if w == 0 {
				sym = 0
			}
			if !st.step(c, k, sym, mirrors[k], feeds, hist) {
				return
			}
		}
		if len(st.cands) == 1 {
			c.Outcome(specListString(st.cands[0]))
		}
		c.Witness("long_stop_lists")
	}
}

// c14Deep: explicit-state BFS to the fixpoint. A state is reached by a representative
// history (replayed on a fresh BuildJournal for every successor - real objects cannot be
// cloned). Canonical key: the (stop id, marked?) list and whether the trip is marked past.
// It is sound to merge states with equal keys because update, createPartition and markPast
// branch only on stop ids, on the nil-ness of marks and on assigned/active; times are payload.
func c14Deep(c *Ctx) {
	type rep struct{ syms []int }
	key := func(j *journal.Journal) string {
		obs, t, vis := observedList(j)
		if !vis {
			return "invisible"
		}
		var sb strings.Builder
		for _, s := range obs {
			sb.WriteString(s.stop)
			if s.marked != nil {
				sb.WriteString("*")
			}
		}
		if t.MarkedPast != nil {
			sb.WriteString("|past")
		}
		return sb.String()
	}
	run := func(syms []int) (*journal.Journal, []*gtfs.Realtime, [][]specStop, bool) {
		var feeds []*gtfs.Realtime
		var mirrors [][]specStop
		for k, s := range syms {
			f, m := c14Feed(k, s, false)
			feeds = append(feeds, f)
			mirrors = append(mirrors, m)
		}
		j, ok := buildJournalGuarded(c, feeds, farPast, farFuture)
		return j, feeds, mirrors, ok
	}
	seen := map[string]bool{}
	var frontier []rep
	// initial states: every first feed that assigns the trip
	for sym := 2; sym < c14Symbols; sym++ {
		j, _, _, ok := run([]int{sym})
		if !ok {
			return
		}
		k := key(j)
		if !seen[k] {
			seen[k] = true
			frontier = append(frontier, rep{[]int{sym}})
		}
	}
	transitions := 0
	maxDepth := 1
	for len(frontier) > 0 {
		cur := frontier[0]
		frontier = frontier[1:]
		jprev, _, _, ok := run(cur.syms)
		if !ok {
			return
		}
		L, tprev, _ := observedList(jprev)
		for sym := 0; sym < c14Symbols; sym++ {
			if sym == 1 {
				continue // ignored update: checked in the shallow tier
			}
			syms := append(append([]int{}, cur.syms...), sym)
			j, _, mirrors, ok := run(syms)
			if !ok {
				return
			}
			transitions++
			kidx := len(syms) - 1
			t := c14FeedTime(kidx)
			var cands [][]specStop
			if sym == 0 {
				if tprev.MarkedPast == nil {
					cands = [][]specStop{markAll(L, t)}
				} else {
					cands = [][]specStop{L}
				}
			} else {
				cands = specApply(L, mirrors[kidx], t)
			}
			obs, _, vis := observedList(j)
			okk := false
			if vis {
				for _, cand := range cands {
					if specListString(cand) == specListString(obs) {
						okk = true
					}
				}
			}
			if !okk {
				var names []string
				for _, s := range syms {
					names = append(names, symName(s))
				}
				c.Fail(c14Signature(cands, obs), "history %s: the stop-time list after the last feed is not one the statement admits\ngot:\n%s", strings.Join(names, " "), specListString(obs))
				return
			}
			k := key(j)
			if !seen[k] {
				seen[k] = true
				frontier = append(frontier, rep{syms})
				if len(syms) > maxDepth {
					maxDepth = len(syms)
				}
			}
		}
	}
	c.Count("abstract_states", int64(len(seen)))
	c.Count("bfs_transitions", int64(transitions))
	c.Count("bfs_max_depth", int64(maxDepth))
	c.Steps(transitions)
	c.Input(hash64("bfs"), true, func() string {
		return fmt.Sprintf("BFS to fixpoint over histories whose first feed assigns the trip: %d abstract states, %d transitions, depth %d", len(seen), transitions, maxDepth)
	})
	c.Outcome(fmt.Sprint(len(seen)))
	c.Witness("bfs_fixpoint_reached")
}

func init() {
	register(&Check{
		ID:    "C14",
		Level: "model_checking",
		Rule: "the trip next to a companion trip that is present or absent per feed, lists of <= 2 stops over {A,B} or {M11N,M11S}: all histories of <= 3 feeds; lists of 9 / 17 / 33 / 65 stops: all histories of <= 3 feeds over 9 window symbols (omitted, all, all but the first, second half, last, first half, all + 3 new, second half + 3 new, no stops); one trip; feed symbols {trip omitted, unassigned [AB], assigned x every list over {A,B,C} of length <= 3 (40 lists)} = 42; ALL histories of <= 3 feeds (thorough <= 4), each under 10 value schemes (updates flagged NO_DATA / SKIPPED; unique per feed; optional values absent; times constant while the track changes; track constant while times change; all constant; delay-only events after the first feed; a stop_sequence on the first update only; departures before their arrivals), 4 feed-time schemes (60 s apart; all equal; no timestamps; decreasing), trips with / without an entity of their own, and feeds that also carry an unrelated vehicle and alert, one deviation at a time, journal built for every prefix; plus explicit-state BFS to the fixpoint over histories starting with an assigning feed, states canonicalised to (stop id, marked?)* + trip-marked flag; " +
			"non-trivial = distinct histories of >= 2 feeds; oracle = nondeterministic specification automaton (set of admissible lists, refined by each observation)",
		Assumptions: []string{"when the update's first stop is not in the list, or the update is empty, any prefix of the old list may be kept (the statement only constrains the case where the first stop is present)", "BFS state merging is sound because the journal code branches only on stop ids, nil-ness of marks and the assigned/active flags"},
		Scenarios: func(tier string) []*Scenario {
			n := 3
			if tier == "thorough" {
				n = 4
			}
			return []*Scenario{{Name: fmt.Sprintf("all-histories<=%d", n), Bound: 1, Run: c14Shallow(n)}, {Name: "bfs-fixpoint", Bound: 0, Run: c14Deep}, {Name: "long-lists<=3", Bound: -1, Run: c14LongLists(3)}, {Name: "two-trips<=3", Bound: -1, Run: c14TwoTrips(3)}}
		},
	})
}

type journalT = journal.Journal

func buildJournal(feeds []*gtfs.Realtime, start, end time.Time) *journal.Journal {
	return journal.BuildJournal(&sliceSource{feeds: feeds}, start, end)
}
