package main

// scribble overwrites, through every pointer, slice and map reachable from a result, the values
// they lead to - as a caller is entitled to do with a result it owns ("normalise the stop ids
// in place"). Nothing the library holds on to, and no other result, may change because of it.

import (
	"reflect"
	"time"
)

var timeType = reflect.TypeOf(time.Time{})

func scribble(root interface{}) {
	seen := map[uintptr]bool{}
	var walk func(v reflect.Value)
	set := func(v reflect.Value) {
		if !v.CanSet() {
			return
		}
		switch v.Kind() {
		case reflect.String:
			v.SetString("SCRIBBLED")
		case reflect.Int, reflect.Int8, reflect.Int16, reflect.Int32, reflect.Int64:
			v.SetInt(-77)
		case reflect.Uint, reflect.Uint8, reflect.Uint16, reflect.Uint32, reflect.Uint64:
			v.SetUint(77)
		case reflect.Float32, reflect.Float64:
			v.SetFloat(-7.7)
		case reflect.Bool:
			v.SetBool(!v.Bool())
		}
	}
	walk = func(v reflect.Value) {
		switch v.Kind() {
		case reflect.Ptr:
			if v.IsNil() || seen[v.Pointer()] {
				return
			}
			seen[v.Pointer()] = true
			walk(v.Elem())
		case reflect.Interface:
			if !v.IsNil() {
				walk(v.Elem())
			}
		case reflect.Struct:
			if v.Type() == timeType {
				if v.CanSet() {
					v.Set(reflect.ValueOf(time.Unix(7, 0).UTC()))
				}
				return
			}
			for i := 0; i < v.NumField(); i++ {
				if v.Type().Field(i).PkgPath == "" { // exported
					walk(v.Field(i))
				}
			}
		case reflect.Slice:
			for i := 0; i < v.Len(); i++ {
				walk(v.Index(i))
			}
		case reflect.Map:
			// entries are not addressable: leave maps alone (no result type has one)
		default:
			set(v)
		}
	}
	walk(reflect.ValueOf(root))
}
