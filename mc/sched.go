package main

// E3: controlled scheduler with the race detector as monitor.
//
// Threads are goroutines; exactly one runs at a time. A thread yields at points: every call
// of an Extension method (through a proxy extension wrapped around the real one) and the
// `verif`-tagged hooks in the library (once per file pass of ParseStatic, once per entity in
// the two loops of ParseRealtime). At a point the explorer decides who continues: choice 0
// keeps the running thread, any other choice is a preemption (a deviation); when a thread
// ends the choice of its successor is free.
//
// The hand-off is INVISIBLE to the race detector: a spin on a plain word with
// runtime.Gosched(), inside //go:norace functions - no channel, mutex or sync/atomic, which
// would be happens-before edges and blind the detector. Under -race every explored schedule
// is therefore monitored for conflicting accesses between the calls on ALL memory, not only
// at hooked sites; runtime.RaceErrors() attributes reports to the schedule that produced them.
// All scheduler bookkeeping (including the explorer's choice recording) lives in //go:norace
// functions: a race report with a harness frame is a harness bug.

import (
	"runtime"
	"sync"

	"github.com/jamespfennell/gtfs"
	"github.com/jamespfennell/gtfs/extensions"
	gtfsrt "github.com/jamespfennell/gtfs/proto"
)

type sched struct {
	c       *Ctx
	n       int
	cur     int // running thread; -1: main
	done    []bool
	trace   []byte
	points  int
	maxPts  int
	aborted bool
}

var curSched *sched

func init() {
	gtfs.SetVerifHook(schedHook)
}

//go:norace
func schedHook(site string) {
	if s := curSched; s != nil && s.cur >= 0 {
		s.point(site)
	}
}

// point is called by the running thread.
//
//go:norace
func (s *sched) point(site string) {
	me := s.cur
	s.points++
	if s.points > s.maxPts {
		// horizon: never reached by the bounded harnesses; keep running the current thread
		s.aborted = true
		return
	}
	var enabled [8]int
	k := 0
	enabled[k] = me
	k++
	for i := 0; i < s.n; i++ {
		if i != me && !s.done[i] {
			enabled[k] = i
			k++
		}
	}
	ch := s.c.chooseNoRace(site, k, false)
	next := enabled[ch]
	s.trace = append(s.trace, byte('0'+next))
	if next != me {
		s.cur = next
		for s.cur != me {
			runtime.Gosched()
		}
	}
}

// finish is called by a thread when its body has returned.
//
//go:norace
func (s *sched) finish(me int) {
	s.done[me] = true
	var enabled [8]int
	k := 0
	for i := 0; i < s.n; i++ {
		if !s.done[i] {
			enabled[k] = i
			k++
		}
	}
	if k == 0 {
		s.cur = -1
		return
	}
	ch := s.c.chooseNoRace("thread-ended", k, true)
	s.trace = append(s.trace, byte('0'+enabled[ch]))
	s.cur = enabled[ch]
}

//go:norace
func (s *sched) waitTurn(me int) {
	for s.cur != me {
		runtime.Gosched()
	}
}

//go:norace
func (s *sched) start() {
	ch := s.c.chooseNoRace("first-thread", s.n, true)
	s.trace = append(s.trace, byte('0'+ch))
	s.cur = ch
}

// chooseNoRace is Ctx.choose for use by the scheduler (no race instrumentation).
//
//go:norace
func (c *Ctx) chooseNoRace(label string, n int, free bool) int {
	if n <= 1 {
		return 0
	}
	i := len(c.points)
	v := 0
	if i < len(c.prefix) {
		v = c.prefix[i]
		if v >= n {
			schedDiverged = "choice out of range at " + label
			v = 0
		}
		if i < len(c.prefixLbls) && c.prefixLbls[i] != label {
			schedDiverged = "label mismatch: " + label + " vs recorded " + c.prefixLbls[i]
		}
	}
	c.points = append(c.points, Point{Label: label, N: n, Free: free, Chosen: v})
	return v
}

var schedDiverged string

// runThreads runs the bodies as threads under the controlled scheduler and returns the
// schedule trace (sequence of thread ids at the decision points).
func runThreads(c *Ctx, bodies []func()) string {
	s := &sched{c: c, n: len(bodies), cur: -1, done: make([]bool, len(bodies)), maxPts: 10000}
	schedDiverged = ""
	curSched = s
	var wg sync.WaitGroup
	for i := range bodies {
		wg.Add(1)
		go func(i int) {
			defer wg.Done()
			s.waitTurn(i)
			bodies[i]()
			s.finish(i)
		}(i)
	}
	s.start()
	wg.Wait() // a real join: the threads' effects happen-before the oracle reads them
	curSched = nil
	if schedDiverged != "" {
		harnessBug("replay divergence in the scheduler: %s", schedDiverged)
	}
	if s.aborted {
		harnessBug("scheduler horizon of %d points exceeded", s.maxPts)
	}
	return string(s.trace)
}

// proxyExt wraps an extension so that every method call is a scheduling point.
type proxyExt struct{ inner extensions.Extension }

func (p proxyExt) UpdateTrip(trip *gtfsrt.TripUpdate, feedCreatedAt uint64) extensions.UpdateTripResult {
	schedHook("ext.UpdateTrip")
	return p.inner.UpdateTrip(trip, feedCreatedAt)
}

func (p proxyExt) UpdateVehicle(vehicle *gtfsrt.VehiclePosition) {
	schedHook("ext.UpdateVehicle")
	p.inner.UpdateVehicle(vehicle)
}

func (p proxyExt) UpdateAlert(ID *string, alert *gtfsrt.Alert) bool {
	schedHook("ext.UpdateAlert")
	return p.inner.UpdateAlert(ID, alert)
}

func (p proxyExt) GetTrack(stopTimeUpdate *gtfsrt.TripUpdate_StopTimeUpdate) *string {
	schedHook("ext.GetTrack")
	return p.inner.GetTrack(stopTimeUpdate)
}

// proxyPerFeedExt is the proxy for extensions that have per-feed state (a ForFeed method). Only
// those get a ForFeed method on the proxy, so that wrapping never changes which code path
// ParseRealtime takes for an extension.
type proxyPerFeedExt struct{ proxyExt }

func (p proxyPerFeedExt) ForFeed() extensions.Extension {
	// (anonymous interface: the harness must also build against a library without that type)
	return wrapExt(p.inner.(interface{ ForFeed() extensions.Extension }).ForFeed())
}

// wrapExt wraps an extension in the proxy that matches its method set.
func wrapExt(e extensions.Extension) extensions.Extension {
	if _, ok := e.(interface{ ForFeed() extensions.Extension }); ok {
		return proxyPerFeedExt{proxyExt{e}}
	}
	return proxyExt{e}
}
