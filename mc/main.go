package main

import (
	"bufio"
	"encoding/binary"
	"encoding/json"
	"fmt"
	"io"
	"log"
	"os"
	"os/exec"
	"path/filepath"
	"runtime"
	"sort"
	"strconv"
	"strings"
	"sync"
	"syscall"
	"time"
	_ "time/tzdata"
)

type Check struct {
	ID          string
	Level       string
	Rule        string
	Assumptions []string
	Scenarios   func(tier string) []*Scenario
	// Custom, when set, replaces the generic master/worker exploration (C18).
	Custom func(tier string, out *os.File) int
}

var registry = map[string]*Check{}

func register(c *Check) { registry[c.ID] = c }

var realStdout *os.File

// silence points fd 1 at /dev/null (the library prints to stdout) and discards log output;
// the checker itself speaks through realStdout.
func silence() {
	fd, err := syscall.Dup(1)
	if err != nil {
		fatalf("dup: %v", err)
	}
	realStdout = os.NewFile(uintptr(fd), "realstdout")
	null, err := os.OpenFile("/dev/null", os.O_WRONLY, 0)
	if err != nil {
		fatalf("open /dev/null: %v", err)
	}
	if err := syscall.Dup2(int(null.Fd()), 1); err != nil {
		fatalf("dup2: %v", err)
	}
	log.SetOutput(io.Discard)
}

func verifDir() string {
	if d := os.Getenv("VERIF_DIR"); d != "" {
		return d
	}
	exe, err := os.Executable()
	if err == nil {
		return filepath.Dir(filepath.Dir(exe))
	}
	return "/verif"
}

func main() {
	defer func() {
		if r := recover(); r != nil {
			if he, ok := r.(harnessError); ok {
				fatalf("%s", he.msg)
			}
			panic(r)
		}
	}()
	os.Setenv("TZ", "UTC")
	if len(os.Args) < 2 {
		fmt.Fprintln(os.Stderr, "usage: mc <Cnn> <quick|thorough> | mc --replay <file> | mc --list")
		os.Exit(2)
	}
	switch os.Args[1] {
	case "--worker":
		silence()
		workerMain(os.Args[2], os.Args[3], os.Args[4])
		fieldcovFlush()
	case "--selftest":
		silence()
		if selftestMain() > 0 {
			os.Exit(1)
		}
	case "--fieldcov-universe":
		fmt.Println(strings.Join(fieldcovUniverse(), "\n"))
	case "--replay":
		silence()
		os.Exit(replayMain(os.Args[2]))
	case "--oneshot":
		// runs a short history of parse calls in this pristine process and prints the dumps (C06)
		silence()
		c06Oneshot(os.Args[2])
	case "--list":
		var ids []string
		for id := range registry {
			ids = append(ids, id)
		}
		sort.Strings(ids)
		fmt.Println(strings.Join(ids, " "))
	default:
		tier := "quick"
		if len(os.Args) > 2 {
			tier = os.Args[2]
		} else if t := os.Getenv("VERIF_TIER"); t != "" {
			tier = t
		}
		if tier != "quick" && tier != "thorough" {
			fatalf("unknown tier %q", tier)
		}
		silence()
		os.Exit(masterMain(os.Args[1], tier))
	}
}

func capSeconds(tier string) float64 {
	if v := os.Getenv("VERIF_CAP_S"); v != "" {
		if f, err := strconv.ParseFloat(v, 64); err == nil {
			return f
		}
	}
	if tier == "quick" {
		return 240
	}
	return 5400
}

func seedOf() int64 {
	if v := os.Getenv("VERIF_SEED"); v != "" {
		if i, err := strconv.ParseInt(v, 10, 64); err == nil {
			return i
		}
	}
	return 0
}

// ---------------------------------------------------------------------------------------
// worker

func writeSet(w io.Writer, m map[uint64]struct{}) {
	var b [8]byte
	binary.LittleEndian.PutUint64(b[:], uint64(len(m)))
	w.Write(b[:])
	for k := range m {
		binary.LittleEndian.PutUint64(b[:], k)
		w.Write(b[:])
	}
}

func readSet(r io.Reader) map[uint64]struct{} {
	var b [8]byte
	if _, err := io.ReadFull(r, b[:]); err != nil {
		return map[uint64]struct{}{}
	}
	n := binary.LittleEndian.Uint64(b[:])
	m := make(map[uint64]struct{}, n)
	for i := uint64(0); i < n; i++ {
		if _, err := io.ReadFull(r, b[:]); err != nil {
			break
		}
		m[binary.LittleEndian.Uint64(b[:])] = struct{}{}
	}
	return m
}

func writeRelations(w io.Writer, rels map[string]map[[16]byte]*relEntry) {
	wu := func(v uint64) {
		var b [8]byte
		binary.LittleEndian.PutUint64(b[:], v)
		w.Write(b[:])
	}
	ws := func(s string) { wu(uint64(len(s))); w.Write([]byte(s)) }
	wu(uint64(len(rels)))
	for name, m := range rels {
		ws(name)
		wu(uint64(len(m)))
		for a, e := range m {
			w.Write(a[:])
			w.Write(e.B[:])
			ws(e.Scenario)
			wu(uint64(len(e.Choices)))
			for _, c := range e.Choices {
				var b [2]byte
				binary.LittleEndian.PutUint16(b[:], c)
				w.Write(b[:])
			}
		}
	}
}

func readRelations(r io.Reader) map[string]map[[16]byte]*relEntry {
	ru := func() uint64 {
		var b [8]byte
		if _, err := io.ReadFull(r, b[:]); err != nil {
			fatalf("worker output truncated: %v", err)
		}
		return binary.LittleEndian.Uint64(b[:])
	}
	rs := func() string {
		b := make([]byte, ru())
		io.ReadFull(r, b)
		return string(b)
	}
	out := map[string]map[[16]byte]*relEntry{}
	n := ru()
	for i := uint64(0); i < n; i++ {
		name := rs()
		cnt := ru()
		m := make(map[[16]byte]*relEntry, cnt)
		for j := uint64(0); j < cnt; j++ {
			var a [16]byte
			e := &relEntry{}
			io.ReadFull(r, a[:])
			io.ReadFull(r, e.B[:])
			e.Scenario = rs()
			k := ru()
			e.Choices = make([]uint16, k)
			for x := range e.Choices {
				var b [2]byte
				io.ReadFull(r, b[:])
				e.Choices[x] = binary.LittleEndian.Uint16(b[:])
			}
			m[a] = e
		}
		out[name] = m
	}
	return out
}

func workerMain(prop, tier, outPath string) {
	check := registry[prop]
	if check == nil {
		fatalf("unknown property %s", prop)
	}
	runtime.GOMAXPROCS(2)
	if !raceEnabled {
		lim := syscall.Rlimit{Cur: 12 << 30, Max: 12 << 30}
		syscall.Setrlimit(syscall.RLIMIT_AS, &lim)
	}
	scs := check.Scenarios(tier)
	start := time.Now()
	capS := capSeconds(tier)
	var current []int
	var progress int64
	ex := &Explorer{Property: prop, Tier: tier, Stats: newStats(), current: &current, progress: &progress}
	ex.deadline = func() bool { return time.Since(start).Seconds() > capS }
	// watchdog: an execution normally takes well under a second; 60 s without progress is a hang.
	go watchdog(outPath+".cur", &progress, &current)
	in := bufio.NewReaderSize(os.Stdin, 1<<20)
	for {
		line, err := in.ReadBytes('\n')
		if len(line) > 1 {
			var it workItem
			if e := json.Unmarshal(line, &it); e != nil {
				fatalf("worker: bad item: %v", e)
			}
			busy = true
			func() {
				defer func() {
					if r := recover(); r != nil {
						if he, ok := r.(harnessError); ok {
							fatalf("%s", he.msg)
						}
						// a panic escaping a harness is a harness bug: harnesses guard the code under test
						fatalf("panic outside guard: %v\nchoices=%v", r, current)
					}
				}()
				ex.exploreSubtree(scs[it.Scenario], node{it.Prefix, it.Labels, it.Devs})
			}()
			busy = false
			realStdout.Write([]byte("D\n"))
		}
		if err != nil {
			break
		}
	}
	f, err := os.Create(outPath)
	if err != nil {
		fatalf("worker: %v", err)
	}
	w := bufio.NewWriter(f)
	js := mustJSON(ex.Stats)
	var b [8]byte
	binary.LittleEndian.PutUint64(b[:], uint64(len(js)))
	w.Write(b[:])
	w.Write(js)
	writeSet(w, ex.Stats.Outcomes)
	writeSet(w, ex.Stats.Inputs)
	writeRelations(w, ex.Stats.Relations)
	w.Flush()
	f.Close()
}

var busy bool

// watchdog exits the worker when no execution has finished for 60 s while one is in progress.
// Its reads of the explorer's counters are deliberately unsynchronised (and not instrumented:
// under -race the worker's own bookkeeping must not appear in the monitor's reports).
//
//go:norace
func watchdog(curFile string, progress *int64, current *[]int) {
	last := int64(-1)
	stuck := 0
	for {
		time.Sleep(5 * time.Second)
		p := *progress
		if p == last && busy {
			stuck++
		} else {
			stuck = 0
		}
		last = p
		if stuck >= 12 {
			cur := append([]int(nil), (*current)...)
			os.WriteFile(curFile, mustJSON(map[string]interface{}{"hang": true, "choices": cur}), 0644)
			fmt.Fprintf(os.Stderr, "watchdog: no progress for 60s at %v\n", cur)
			os.Exit(3)
		}
	}
}

// ---------------------------------------------------------------------------------------
// master

func masterMain(prop, tier string) int {
	check := registry[prop]
	if check == nil {
		fatalf("unknown property %s", prop)
	}
	start := time.Now()
	if check.Custom != nil {
		return check.Custom(tier, realStdout)
	}
	scs := check.Scenarios(tier)
	ex := &Explorer{Property: prop, Tier: tier, Stats: newStats()}
	nworkers := runtime.NumCPU()
	if v := os.Getenv("VERIF_WORKERS"); v != "" {
		if i, err := strconv.Atoi(v); err == nil && i > 0 {
			nworkers = i
		}
	}
	items := ex.expand(scs, nworkers*24)
	total := ex.Stats
	crashes := 0
	if len(items) > 0 {
		if nworkers > len(items) {
			nworkers = len(items)
		}
		seed := seedOf()
		if seed != 0 && len(items) > 1 {
			// VERIF_SEED only rotates the order in which subtrees are handed out.
			r := int(uint64(seed) % uint64(len(items)))
			items = append(items[r:], items[:r]...)
		}
		ch := make(chan workItem)
		go func() {
			for _, it := range items {
				ch <- it
			}
			close(ch)
		}()
		tmpDir, err := os.MkdirTemp("", "verifmc")
		if err != nil {
			fatalf("mkdtemp: %v", err)
		}
		defer os.RemoveAll(tmpDir)
		exe, _ := os.Executable()
		var mu sync.Mutex
		var wg sync.WaitGroup
		for w := 0; w < nworkers; w++ {
			wg.Add(1)
			go func(w int) {
				defer wg.Done()
				for {
					// (re)start a worker; it is restarted after a crash so the remaining items are still explored
					out := filepath.Join(tmpDir, fmt.Sprintf("w%d.out", w))
					os.Remove(out)
					os.Remove(out + ".cur")
					cmd := exec.Command(exe, "--worker", prop, tier, out)
					cmd.Env = append(os.Environ(), "GOMAXPROCS=2", "VERIF_DIR="+verifDir(), "VERIF_RACELOG="+out+".racelog")
					stdin, _ := cmd.StdinPipe()
					stdout, _ := cmd.StdoutPipe()
					errFile, _ := os.Create(out + ".err")
					cmd.Stderr = errFile
					if err := cmd.Start(); err != nil {
						fatalf("start worker: %v", err)
					}
					rd := bufio.NewReader(stdout)
					crashed := false
					var crashedItem workItem
					for it := range ch {
						stdin.Write(append(mustJSON(it), '\n'))
						line, err := rd.ReadString('\n')
						if err != nil || strings.TrimSpace(line) != "D" {
							crashed = true
							crashedItem = it
							break
						}
					}
					stdin.Close()
					werr := cmd.Wait()
					errFile.Close()
					if !crashed && werr == nil {
						st := readWorkerStats(out)
						mu.Lock()
						total.merge(st)
						mu.Unlock()
						return
					}
					errText, _ := os.ReadFile(out + ".err")
					if rl, err := os.ReadFile(out + ".racelog"); err == nil && len(rl) > 0 {
						if len(rl) > 6000 {
							rl = rl[len(rl)-6000:]
						}
						errText = append(errText, rl...)
					}
					if ee, ok := werr.(*exec.ExitError); ok && ee.ExitCode() == 2 && !crashed {
						fatalf("worker %d: %s", w, errText)
					}
					if strings.Contains(string(errText), "HARNESS ERROR") {
						fatalf("worker %d: %s", w, errText)
					}
					// the worker died inside the code under test (fatal error, watchdog)
					mu.Lock()
					crashes++
					first := strings.SplitN(strings.TrimSpace(string(errText)), "\n", 2)[0]
					sig := "worker-death:" + first
					cur, _ := os.ReadFile(out + ".cur")
					total.TimedOut = true // the crashed subtree is incomplete
					if _, ok := total.Violations[sig]; !ok {
						total.Violations[sig] = &ViolationRec{Property: prop, Scenario: scs[crashedItem.Scenario].Name, Tier: tier,
							Signature: sig, Detail: string(errText[:min(len(errText), 4000)]) + "\ncurrent=" + string(cur),
							Choices: crashedItem.Prefix, Labels: crashedItem.Labels, Count: 1}
					}
					mu.Unlock()
					if crashes > 20 {
						return
					}
				}
			}(w)
		}
		wg.Wait()
	}
	return finish(check, tier, total, scs, start)
}

func min(a, b int) int {
	if a < b {
		return a
	}
	return b
}

func readWorkerStats(path string) *Stats {
	f, err := os.Open(path)
	if err != nil {
		fatalf("worker output missing: %v", err)
	}
	defer f.Close()
	r := bufio.NewReader(f)
	var b [8]byte
	io.ReadFull(r, b[:])
	js := make([]byte, binary.LittleEndian.Uint64(b[:]))
	io.ReadFull(r, js)
	st := newStats()
	if err := json.Unmarshal(js, st); err != nil {
		fatalf("worker output: %v", err)
	}
	st.Outcomes = readSet(r)
	st.Inputs = readSet(r)
	st.Relations = readRelations(r)
	return st
}

// ---------------------------------------------------------------------------------------
// known findings

type knownFinding struct {
	Status    string // known | fixed
	Property  string
	Signature string
	What      string
}

func loadKnownFindings() []knownFinding {
	b, err := os.ReadFile(filepath.Join(verifDir(), "known_findings.txt"))
	if err != nil {
		return nil
	}
	var out []knownFinding
	for _, l := range strings.Split(string(b), "\n") {
		l = strings.TrimSpace(l)
		if strings.HasPrefix(l, "known: ") {
			// known: property=C06 signature=<sig without spaces> <what fails>
			f := strings.SplitN(strings.TrimPrefix(l, "known: "), " ", 3)
			if len(f) < 3 || !strings.HasPrefix(f[0], "property=") || !strings.HasPrefix(f[1], "signature=") {
				fatalf("known_findings.txt: malformed line %q", l)
			}
			out = append(out, knownFinding{"known", strings.TrimPrefix(f[0], "property="), strings.TrimPrefix(f[1], "signature="), f[2]})
		}
		// "fixed:" lines are documentation; they suppress nothing.
	}
	return out
}

func sigToken(s string) string {
	s = strings.ReplaceAll(s, " ", "_")
	return s
}

// ---------------------------------------------------------------------------------------
// finishing: confirm violations, classify, write evidence

func finish(check *Check, tier string, st *Stats, scs []*Scenario, start time.Time) int {
	known := loadKnownFindings()
	replayDir := filepath.Join(verifDir(), "evidence", "replays")
	var keys []string
	for k := range st.Violations {
		keys = append(keys, k)
	}
	sort.Strings(keys)
	exit := 0
	nviol := 0
	nknown := 0
	printedKnown := map[string]bool{}
	printedViol := map[string]bool{}
	ex := &Explorer{Property: check.ID, Tier: tier, Stats: newStats()}
	for _, k := range keys {
		v := st.Violations[k]
		v.Property, v.Tier = check.ID, tier
		if strings.HasPrefix(v.Signature, "relation:") {
			confirmRelation(check, tier, scs, v)
		} else if strings.HasPrefix(v.Signature, "race:") {
			// the race detector reports a given pair of stacks once per process: confirm in fresh processes
			os.MkdirAll(replayDir, 0755)
			tmp := filepath.Join(replayDir, fmt.Sprintf(".confirm-%d.json", os.Getpid()))
			exe, _ := os.Executable()
			candidates := append([][]int{v.Choices}, v.Alts...)
			confirmed := false
			var lastOut []byte
			for _, cand := range candidates {
				vv := *v
				vv.Choices, vv.Labels, vv.Alts = cand, nil, nil
				js, _ := json.Marshal(&vv)
				os.WriteFile(tmp, js, 0644)
				okBoth := true
				for rep := 0; rep < 2; rep++ {
					out, err := exec.Command(exe, "--replay", tmp).CombinedOutput()
					lastOut = out
					ee, isExit := err.(*exec.ExitError)
					if !isExit || ee.ExitCode() != 1 || !strings.Contains(string(out), "signature="+sigToken(v.Signature)) {
						okBoth = false
						break
					}
				}
				if okBoth {
					v.Choices, v.Labels = cand, nil
					confirmed = true
					break
				}
			}
			os.Remove(tmp)
			if !confirmed {
				v.Signature = "unstable:" + v.Signature
				v.Detail = "NOT REPRODUCIBLE IN A FRESH PROCESS from any of the recorded schedules (the verdict depended on earlier executions of the exploring process).\n" + v.Detail + "\nlast replay output:\n" + firstLines(string(lastOut), 10)
			}
		} else if !strings.HasPrefix(v.Signature, "worker-death:") {
			// re-run twice from the recorded choice vector: the observation must be identical
			var sc *Scenario
			for _, s := range scs {
				if s.Name == v.Scenario {
					sc = s
				}
			}
			for rep := 0; rep < 2; rep++ {
				c := ex.runOnce(sc, v.Choices, v.Labels)
				found := false
				for _, f := range c.failures {
					if f.Signature == v.Signature {
						found = true
					}
				}
				if !found {
					// The same choice vector gave another observation in this process than in the process
					// that explored it. Every source of nondeterminism the harness knows of is a choice
					// point, so the library's result depends on what the process did before: hidden state
					// that outlives a call. That is a violation in its own right (and of C06 in particular).
					v.Signature = "unstable:" + v.Signature
					v.Detail = "NOT REPRODUCIBLE FROM ITS CHOICE VECTOR ALONE: observed in an exploring process, not when the same input was replayed in the master process - the result depends on earlier calls in the same process (state that outlives a call).\n" + v.Detail
					break
				}
			}
		}
		os.MkdirAll(replayDir, 0755)
		name := fmt.Sprintf("%s-%s-%016x.json", check.ID, tier, hash64(v.Scenario+"|"+v.Signature))
		path := filepath.Join(replayDir, name)
		js, _ := json.MarshalIndent(v, "", " ")
		os.WriteFile(path, js, 0644)
		isKnown := false
		for _, kf := range known {
			if kf.Property == check.ID && kf.Signature == sigToken(v.Signature) {
				isKnown = true
				if !printedKnown[kf.Signature] {
					fmt.Fprintf(realStdout, "KNOWN-FINDING: property=%s %s [signature=%s, %d executions, e.g. %s]\n", check.ID, kf.What, kf.Signature, v.Count, path)
					printedKnown[kf.Signature] = true
				}
				nknown++
			}
		}
		if !isKnown {
			nviol++
			exit = 1
			if !printedViol[v.Signature] {
				printedViol[v.Signature] = true
				fmt.Fprintf(realStdout, "VIOLATION property=%s replay=%s\n", check.ID, path)
				fmt.Fprintf(realStdout, "  scenario=%s signature=%s count=%d\n  %s\n", v.Scenario, sigToken(v.Signature), v.Count, firstLines(v.Detail, 12))
			}
		}
	}
	writeEvidence(check, tier, st, start, nviol, nknown)
	fmt.Fprintf(realStdout, "%s %s: executions=%d outcomes=%d nontrivial_inputs=%d max_depth=%d max_devs=%d exhaustive=%v violations=%d known=%d wall=%.1fs\n",
		check.ID, tier, st.Executions, len(st.Outcomes), len(st.Inputs), st.MaxDepth, st.MaxDevs, !st.TimedOut, nviol, nknown, time.Since(start).Seconds())
	var wk []string
	for k, v := range st.Witnesses {
		wk = append(wk, fmt.Sprintf("%s=%d", k, v))
	}
	sort.Strings(wk)
	fmt.Fprintf(realStdout, "  witnesses: %s\n", strings.Join(wk, " "))
	return exit
}

func scenarioByName(scs []*Scenario, name string) *Scenario {
	for _, s := range scs {
		if s.Name == name {
			return s
		}
	}
	fatalf("unknown scenario %q", name)
	return nil
}

// confirmRelation replays both executions of a relation conflict (twice) on fresh tables.
func confirmRelation(check *Check, tier string, scs []*Scenario, v *ViolationRec) {
	for rep := 0; rep < 2; rep++ {
		ex := &Explorer{Property: check.ID, Tier: tier, Stats: newStats()}
		sc2 := scenarioByName(scs, v.Scenario2)
		c2 := ex.runOnce(sc2, v.Choices2, nil)
		ex.account(sc2, c2, 0)
		sc1 := scenarioByName(scs, v.Scenario)
		c1 := ex.runOnce(sc1, v.Choices, nil)
		ex.account(sc1, c1, 0)
		if _, ok := ex.Stats.Violations["relation|"+strings.TrimPrefix(v.Signature, "relation:")]; !ok {
			v.Signature = "unstable:" + v.Signature
			v.Detail = "NOT REPRODUCIBLE FROM THE TWO CHOICE VECTORS ALONE: two executions that must agree differed in the exploring processes but agree when replayed in the master process - the result depends on earlier calls in the same process (state that outlives a call).\n" + v.Detail
			return
		}
		if rep == 0 {
			d1, d2 := "", ""
			if c1.describe != nil {
				d1 = c1.describe()
			}
			if c2.describe != nil {
				d2 = c2.describe()
			}
			v.Labels = labelsOf(c1.points)
			v.Input = "--- execution A (" + fmtChoices(c1.points) + "):\n" + d1 + "\n--- execution B (" + fmtChoices(c2.points) + "):\n" + d2
			v.Detail += "\n" + firstLines(v.Input, 60)
		}
	}
}

func firstLines(s string, n int) string {
	l := strings.Split(s, "\n")
	if len(l) > n {
		l = append(l[:n], "…")
	}
	return strings.Join(l, "\n  ")
}

func writeEvidence(check *Check, tier string, st *Stats, start time.Time, nviol, nknown int) {
	states := len(st.Outcomes)
	if v, ok := st.Counters["abstract_states"]; ok && int(v) > states {
		states = int(v)
	}
	if states == 0 {
		states = 1
	}
	trans := st.Transitions + st.Points
	if trans == 0 {
		trans = st.Executions
	}
	// keep a bounded, spread-out selection of samples
	samples := st.Samples
	if len(samples) > 10 {
		step := len(samples) / 10
		var sel []Sample
		for i := 0; i < len(samples); i += step {
			sel = append(sel, samples[i])
		}
		samples = sel
	}
	perSc := map[string]int64{}
	for k, v := range st.PerScenario {
		perSc[k] = v
	}
	cov := map[string]interface{}{
		"evaluations":                   st.Executions,
		"distinct_nontrivial":           len(st.Inputs),
		"rule":                          check.Rule,
		"samples":                       samples,
		"states":                        states,
		"transitions":                   trans,
		"traces_validated_against_impl": st.Executions,
		"exhaustive":                    !st.TimedOut,
		"choice_points":                 st.Points,
		"library_steps":                 st.Transitions,
		"max_depth":                     st.MaxDepth,
		"deviation_bound_reached":       st.MaxDevs,
		"distinct_outcomes":             len(st.Outcomes),
		"sets_capped":                   st.OutcomesCapped,
		"nontrivial_executions":         st.Nontrivial,
		"witnesses":                     st.Witnesses,
		"counters":                      st.Counters,
		"per_scenario_executions":       perSc,
		"uncontrolled_maps":             st.Uncontrolled,
		"known_findings_reported":       nknown,
		"explanation":                   "every explored trace is an execution of the real library code built from /repo's working tree; states = distinct canonical outcomes, transitions = choice points answered + library-level steps",
	}
	ev := map[string]interface{}{
		"property_id": check.ID,
		"tier":        tier,
		"seed":        seedOf(),
		"level":       check.Level,
		"coverage":    cov,
		"assumptions": check.Assumptions,
		"wall_s":      time.Since(start).Seconds(),
		"violations":  nviol,
	}
	js, _ := json.MarshalIndent(ev, "", " ")
	dir := filepath.Join(verifDir(), "evidence")
	os.MkdirAll(dir, 0755)
	if err := os.WriteFile(filepath.Join(dir, check.ID+".json"), js, 0644); err != nil {
		fatalf("write evidence: %v", err)
	}
}

// ---------------------------------------------------------------------------------------
// replay

// (signatures starting with "unstable:" mark violations that depend on process history; a replay of
// the single execution is then expected to hold.)
func replayMain(path string) int {
	b, err := os.ReadFile(path)
	if err != nil {
		fatalf("replay: %v", err)
	}
	var v ViolationRec
	if err := json.Unmarshal(b, &v); err != nil {
		fatalf("replay: %v", err)
	}
	check := registry[v.Property]
	if check == nil {
		fatalf("replay: unknown property %s", v.Property)
	}
	var sc *Scenario
	for _, s := range check.Scenarios(v.Tier) {
		if s.Name == v.Scenario {
			sc = s
		}
	}
	if sc == nil {
		fatalf("replay: unknown scenario %s", v.Scenario)
	}
	ex := &Explorer{Property: v.Property, Tier: v.Tier, Stats: newStats()}
	if strings.HasPrefix(v.Signature, "relation:") {
		scs := check.Scenarios(v.Tier)
		sc2 := scenarioByName(scs, v.Scenario2)
		c2 := ex.runOnce(sc2, v.Choices2, nil)
		ex.account(sc2, c2, 0)
		c1 := ex.runOnce(sc, v.Choices, nil)
		ex.account(sc, c1, 0)
		fmt.Fprintf(realStdout, "%s\n", v.Input)
		if len(ex.Stats.Violations) == 0 {
			fmt.Fprintf(realStdout, "replay %s: property held on this pair\n", path)
			return 0
		}
		fmt.Fprintf(realStdout, "VIOLATION property=%s replay=%s\n  signature=%s\n", v.Property, path, sigToken(v.Signature))
		return 1
	}
	c := ex.runOnce(sc, v.Choices, v.Labels)
	if c.describe != nil {
		fmt.Fprintf(realStdout, "input:\n%s\n", c.describe())
	}
	if len(c.failures) == 0 {
		fmt.Fprintf(realStdout, "replay %s: property held on this input\n", path)
		return 0
	}
	for _, f := range c.failures {
		fmt.Fprintf(realStdout, "VIOLATION property=%s replay=%s\n  signature=%s\n  %s\n", v.Property, path, sigToken(f.Signature), f.Detail)
	}
	return 1
}
