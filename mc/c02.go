package main

// C02 - realtime parse is a faithful transcription in the configured zone.
//
// Enumerated: conflict-free messages built from a pool of two trip descriptors and two
// vehicle descriptors in six entity slots (trip update T1, vehicle V1, trip update T2,
// vehicle V2, alert, id-less vehicle), every optional wire field independently present or
// absent with boundary values, x the Timezone option. Two bases (sparse: optional fields
// absent; rich: all present) so that adding one field and removing one field are both single
// deviations.
// Oracle: dump(ParseRealtime(Marshal(m), tz)) == dump(refParse(m, tz)), cross links excluded
// (C04), Trips and Vehicles compared as multisets (their order is C07 / C06).

import (
	"fmt"
	"sort"
	"time"

	"github.com/jamespfennell/gtfs"
	gtfsrt "github.com/jamespfennell/gtfs/proto"
	"google.golang.org/protobuf/proto"
)

var (
	// 1710054000: the hour skipped in New York when daylight saving time starts; 1730615400: 01:30 EST of the hour that
	// occurs twice when it ends (the same wall clock reading occurred an hour earlier as 01:30 EDT)
	tsAlphabet  = []uint64{1700000000, 0, 1, 2147483648, 1710054000, 4102444800, 1730615400}
	ts64        = []int64{1700000100, 0, 1, -1, 1710054000, 2147483648, 1730615400}
	delayValues = []int32{30, 0, -90, 2147483647, -2147483648}
	zoneIST     = time.FixedZone("IST", 19800)
	zoneLondon  = mustLoc("Europe/London")
)

type tzOpt struct {
	name string
	loc  *time.Location
}

var tzOptions = []tzOpt{{"nil", nil}, {"UTC", time.UTC}, {"+05:30", zoneIST}, {"America/New_York", zoneNY}, {"Europe/London", zoneLondon},
	// two different zones that print the same name
	{"EST(-5h)", time.FixedZone("EST", -5*3600)}, {"EST(+10h)", time.FixedZone("EST", 10*3600)},
	// a zone whose daylight saving time starts AT local midnight: on that day the civil date starts at 01:00
	{"America/Santiago", mustLoc("America/Santiago")}}

// c02Twin: for every zone option the zone used for the second parse of the same message.
var c02Twin = []int{2, 3, 4, 4, 3, 6, 5, 3}

func pickIndex(name string) int {
	for i, t := range tzOptions {
		if t.name == name {
			return i
		}
	}
	return 0
}

func genTripDesc(c *Ctx, p string, i int, rich bool) *gtfsrt.TripDescriptor {
	d := &gtfsrt.TripDescriptor{}
	// padded ids: "T1  " and "T1" are different ids (nothing on the wire says padding is insignificant)
	ids := []string{fmt.Sprintf("T%d", i), "", fmt.Sprintf("trip with space %d", i), fmt.Sprintf("trïp-日本-%d", i), fmt.Sprintf(" T%d\u00a0 ", i)}
	if i == 2 {
		ids = append(ids, "T1") // the trip_id of the other trip: the other identifier fields tell them apart
	}
	d.TripId = optStr(c, p+"trip_id", true, ids...)
	d.RouteId = optStr(c, p+"route_id", rich, fmt.Sprintf("R%d", i), "", fmt.Sprintf(" R%d\t", i))
	d.DirectionId = optU32(c, p+"direction_id", rich, uint32(i%2), uint32(1-i%2), 7)
	d.StartTime = optStr(c, p+"start_time", rich, fmt.Sprintf("0%d:08:09", i), "00:00:00", "25:10:05", "23:59:59")
	d.StartDate = optStr(c, p+"start_date", rich, fmt.Sprintf("2024031%d", i-1), "20231105", "19700101", "20240229", "20240908", "20240407")
	if k := optIdx(c, p+"schedule_relationship", rich, 4); k >= 0 {
		v := []gtfsrt.TripDescriptor_ScheduleRelationship{gtfsrt.TripDescriptor_ADDED, gtfsrt.TripDescriptor_SCHEDULED, gtfsrt.TripDescriptor_UNSCHEDULED, gtfsrt.TripDescriptor_CANCELED}[k]
		d.ScheduleRelationship = &v
	}
	return d
}

func genVehicleDesc(c *Ctx, p string, i int, rich bool) *gtfsrt.VehicleDescriptor {
	d := &gtfsrt.VehicleDescriptor{}
	d.Id = optStr(c, p+"id", true, fmt.Sprintf("V%d", i), "")
	d.Label = optStr(c, p+"label", rich, fmt.Sprintf("label%d", i), "")
	d.LicensePlate = optStr(c, p+"plate", rich, fmt.Sprintf("plate%d", i), "")
	return d
}

func genEvent(c *Ctx, p string, salt int, basePresent, rich bool) *gtfsrt.TripUpdate_StopTimeEvent {
	if c.Choose(p+"present", 2) == b2i(basePresent) {
		return nil
	}
	e := &gtfsrt.TripUpdate_StopTimeEvent{}
	tv := make([]int64, len(ts64))
	copy(tv, ts64)
	tv[0] += int64(salt)
	e.Time = optI64(c, p+"time", rich, tv...)
	dv := make([]int32, len(delayValues))
	copy(dv, delayValues)
	dv[0] += int32(salt)
	e.Delay = optI32(c, p+"delay", rich, dv...)
	e.Uncertainty = optI32(c, p+"uncertainty", rich, int32(5+salt), 0, -1)
	return e
}

func b2i(b bool) int {
	if b {
		return 1
	}
	return 0
}

// present is a choice point for the presence of a slot/sub-message: the base state is the default.
func present(c *Ctx, label string, base bool) bool {
	v := c.Choose(label, 2)
	return (v == 0) == base
}

func genStopTimeUpdates(c *Ctx, p string, salt int, rich bool) []*gtfsrt.TripUpdate_StopTimeUpdate {
	base := 1
	if rich {
		base = 2
	}
	n := []int{0, 1, 2, 3, 7}[pick(c, p+"n_stop_time_updates", base, 5)]
	var out []*gtfsrt.TripUpdate_StopTimeUpdate
	for j := 0; j < n; j++ {
		q := fmt.Sprintf("%sstu%d.", p, j)
		s := salt*10 + j
		u := &gtfsrt.TripUpdate_StopTimeUpdate{}
		u.StopSequence = optU32(c, q+"stop_sequence", rich, uint32(s+1), 0, 4294967295)
		u.StopId = optStr(c, q+"stop_id", true, fmt.Sprintf("S%d", s), "")
		u.Arrival = genEvent(c, q+"arrival.", s*2, rich, rich)
		u.Departure = genEvent(c, q+"departure.", s*2+1, rich, rich)
		if u.Arrival != nil {
			// the departure may equal the arrival in value while differing in which fields are present:
			// absent <-> explicitly zero
			switch c.Choose(q+"departure_mirrors_arrival", 3) {
			case 1: // every field of the arrival, zeros written out
				z32, z64 := int32(0), int64(0)
				d := &gtfsrt.TripUpdate_StopTimeEvent{Time: u.Arrival.Time, Delay: u.Arrival.Delay, Uncertainty: u.Arrival.Uncertainty}
				if d.Time == nil {
					d.Time = &z64
				}
				if d.Delay == nil {
					d.Delay = &z32
				}
				if d.Uncertainty == nil {
					d.Uncertainty = &z32
				}
				u.Departure = d
			case 2: // the arrival's non-zero fields only; and the arrival gets explicit zeros for its absent ones
				d := &gtfsrt.TripUpdate_StopTimeEvent{}
				if u.Arrival.Time != nil && *u.Arrival.Time != 0 {
					d.Time = u.Arrival.Time
				}
				if u.Arrival.Delay != nil && *u.Arrival.Delay != 0 {
					d.Delay = u.Arrival.Delay
				}
				if u.Arrival.Uncertainty != nil && *u.Arrival.Uncertainty != 0 {
					d.Uncertainty = u.Arrival.Uncertainty
				}
				u.Departure = d
				a := proto.Clone(u.Arrival).(*gtfsrt.TripUpdate_StopTimeEvent)
				z32 := int32(0)
				if a.Delay == nil {
					a.Delay = &z32
				}
				if a.Uncertainty == nil {
					a.Uncertainty = &z32
				}
				u.Arrival = a
			}
		}
		if k := optIdx(c, q+"schedule_relationship", rich, 4); k >= 0 {
			v := []gtfsrt.TripUpdate_StopTimeUpdate_ScheduleRelationship{gtfsrt.TripUpdate_StopTimeUpdate_SKIPPED, gtfsrt.TripUpdate_StopTimeUpdate_SCHEDULED, gtfsrt.TripUpdate_StopTimeUpdate_NO_DATA, gtfsrt.TripUpdate_StopTimeUpdate_UNSCHEDULED}[k]
			u.ScheduleRelationship = &v
		}
		out = append(out, u)
	}
	return out
}

func genVehiclePosition(c *Ctx, p string, salt int, rich bool) *gtfsrt.VehiclePosition {
	vp := &gtfsrt.VehiclePosition{}
	if present(c, p+"position", rich) {
		pos := &gtfsrt.Position{}
		lat := []float32{40.5 + float32(salt), 0, -33.25}[c.Choose(p+"lat", 3)]
		lon := []float32{-73.25 - float32(salt), 0, 151.5}[c.Choose(p+"lon", 3)]
		pos.Latitude, pos.Longitude = &lat, &lon
		pos.Bearing = optF32(c, p+"bearing", rich, 90.5+float32(salt), 0)
		pos.Odometer = optF64(c, p+"odometer", rich, 12345.678+float64(salt), 0)
		pos.Speed = optF32(c, p+"speed", rich, 12.5+float32(salt), 0)
		vp.Position = pos
	}
	vp.CurrentStopSequence = optU32(c, p+"current_stop_sequence", rich, uint32(7+salt), 0)
	vp.StopId = optStr(c, p+"stop_id", rich, fmt.Sprintf("VS%d", salt), "")
	if k := optIdx(c, p+"current_status", rich, 3); k >= 0 {
		v := []gtfsrt.VehiclePosition_VehicleStopStatus{gtfsrt.VehiclePosition_STOPPED_AT, gtfsrt.VehiclePosition_INCOMING_AT, gtfsrt.VehiclePosition_IN_TRANSIT_TO}[k]
		vp.CurrentStatus = &v
	}
	tv := make([]uint64, len(tsAlphabet))
	copy(tv, tsAlphabet)
	tv[0] += uint64(200 + salt)
	vp.Timestamp = optU64(c, p+"timestamp", rich, tv...)
	if k := optIdx(c, p+"congestion_level", rich, 5); k >= 0 {
		v := []gtfsrt.VehiclePosition_CongestionLevel{gtfsrt.VehiclePosition_CONGESTION, gtfsrt.VehiclePosition_UNKNOWN_CONGESTION_LEVEL, gtfsrt.VehiclePosition_RUNNING_SMOOTHLY, gtfsrt.VehiclePosition_STOP_AND_GO, gtfsrt.VehiclePosition_SEVERE_CONGESTION}[k]
		vp.CongestionLevel = &v
	}
	occ := enumValues(gtfsrt.VehiclePosition_OccupancyStatus_name, int32(gtfsrt.VehiclePosition_FEW_SEATS_AVAILABLE))
	if k := optIdx(c, p+"occupancy_status", rich, len(occ)); k >= 0 {
		v := gtfsrt.VehiclePosition_OccupancyStatus(occ[k])
		vp.OccupancyStatus = &v
	}
	vp.OccupancyPercentage = optU32(c, p+"occupancy_percentage", rich, uint32(40+salt), 0, 250)
	return vp
}

func genTranslated(c *Ctx, p string, rich bool, text string) *gtfsrt.TranslatedString {
	if !present(c, p+"present", rich) {
		return nil
	}
	ts := &gtfsrt.TranslatedString{}
	n := pick(c, p+"n", 2, 3)
	for i := 0; i < n; i++ {
		texts := []string{fmt.Sprintf("%s %d", text, i), "", "A &amp; C trains &lt;b&gt;delayed&lt;/b&gt; &#39;now&#39; &eacute;", "http://example.com/a?id=7&region=north&copy=1&lt=2"}
		tr := &gtfsrt.TranslatedString_Translation{Text: sp(texts[c.Choose(fmt.Sprintf("%stext%d", p, i), len(texts))])}
		tr.Language = optStr(c, fmt.Sprintf("%slang%d", p, i), i == 0, []string{"en", "es"}[i%2], "")
		ts.Translation = append(ts.Translation, tr)
	}
	return ts
}

func genSimpleAlert(c *Ctx, p string, rich bool) *gtfsrt.Alert {
	a := &gtfsrt.Alert{}
	n := pick(c, p+"n_periods", b2i(rich)*2, 3)
	for i := 0; i < n; i++ {
		tr := &gtfsrt.TimeRange{}
		tv := make([]uint64, len(tsAlphabet))
		copy(tv, tsAlphabet)
		tv[0] += uint64(1000 * (i + 1))
		tr.Start = optU64(c, fmt.Sprintf("%speriod%d.start", p, i), true, tv...)
		tv[0] += 500
		tr.End = optU64(c, fmt.Sprintf("%speriod%d.end", p, i), i == 0, tv...)
		a.ActivePeriod = append(a.ActivePeriod, tr)
	}
	// selectors with plain fields and, as deviations, identifiable trips (normalisation of
	// non-identifying descriptors is C12's business)
	ns := pick(c, p+"n_selectors", 1+b2i(rich), 3)
	for i := 0; i < ns; i++ {
		q := fmt.Sprintf("%ssel%d.", p, i)
		e := &gtfsrt.EntitySelector{}
		e.AgencyId = optStr(c, q+"agency", rich, fmt.Sprintf("AG%d", i), "")
		e.RouteId = optStr(c, q+"route", true, fmt.Sprintf("AR%d", i), "")
		e.RouteType = optI32(c, q+"route_type", rich, 3, 0, 12, 99)
		e.StopId = optStr(c, q+"stop", rich, fmt.Sprintf("AS%d", i), "")
		e.DirectionId = optU32(c, q+"direction", rich, uint32(i%2), uint32(1-i%2))
		// a selector may name a trip: one mentioned nowhere else (by id, or by route+direction+start) or a pool trip
		switch c.Choose(q+"trip", 6) {
		case 5:
			// a descriptor that names a route only (plus a direction): the alert then also informs that route -
			// one entity per such route, after the entities of the selectors, in no stated order
			e.Trip = &gtfsrt.TripDescriptor{RouteId: sp(fmt.Sprintf("FB%d", 9-i)), DirectionId: u32p(uint32(i % 2))}
		case 1:
			e.Trip = &gtfsrt.TripDescriptor{TripId: sp(fmt.Sprintf("alert-only-trip-%d", i)), RouteId: sp(fmt.Sprintf("AR%d", i))}
		case 2:
			e.Trip = &gtfsrt.TripDescriptor{RouteId: sp(fmt.Sprintf("AR%d", i)), DirectionId: cp(new(uint32)), StartTime: sp(fmt.Sprintf("1%d:30:00", i)), StartDate: sp("20240102")}
		case 3:
			e.Trip = &gtfsrt.TripDescriptor{TripId: sp("T1")}
		case 4:
			e.Trip = &gtfsrt.TripDescriptor{TripId: sp(fmt.Sprintf("alert-only-trip-%d", i))}
		}
		a.InformedEntity = append(a.InformedEntity, e)
	}
	causes := enumValues(gtfsrt.Alert_Cause_name, int32(gtfsrt.Alert_STRIKE))
	if k := optIdx(c, p+"cause", rich, len(causes)); k >= 0 {
		v := gtfsrt.Alert_Cause(causes[k])
		a.Cause = &v
	}
	effects := enumValues(gtfsrt.Alert_Effect_name, int32(gtfsrt.Alert_DETOUR))
	if k := optIdx(c, p+"effect", rich, len(effects)); k >= 0 {
		v := gtfsrt.Alert_Effect(effects[k])
		a.Effect = &v
	}
	a.Url = genTranslated(c, p+"url.", rich, "http://example.com/a")
	a.HeaderText = genTranslated(c, p+"header.", true, "Header, with \"quotes\"")
	a.DescriptionText = genTranslated(c, p+"description.", rich, "Description\nsecond line")
	return a
}

// c02MergeFallback: the entities an alert gets for routes that its selectors name only through a
// trip descriptor come after the entities of the selectors, in no stated order: they are appended to
// the reference in sorted order, and the corresponding tail of the result is sorted the same way.
func c02MergeFallback(want *refResult, got *gtfs.Realtime) {
	less := func(a, b gtfs.AlertInformedEntity) bool { return dumpInformed(a) < dumpInformed(b) }
	for i := range want.rt.Alerts {
		k := len(want.rt.Alerts[i].InformedEntities)
		fb := append([]gtfs.AlertInformedEntity{}, want.fallback[i]...)
		sort.Slice(fb, func(x, y int) bool { return less(fb[x], fb[y]) })
		want.rt.Alerts[i].InformedEntities = append(want.rt.Alerts[i].InformedEntities, fb...)
		if i < len(got.Alerts) && len(got.Alerts[i].InformedEntities) > k {
			tail := got.Alerts[i].InformedEntities[k:]
			sort.Slice(tail, func(x, y int) bool { return less(tail[x], tail[y]) })
		}
	}
}

func cloneTD(d *gtfsrt.TripDescriptor) *gtfsrt.TripDescriptor {
	n := &gtfsrt.TripDescriptor{TripId: cp(d.TripId), RouteId: cp(d.RouteId), DirectionId: cp(d.DirectionId), StartTime: cp(d.StartTime), StartDate: cp(d.StartDate), ScheduleRelationship: cp(d.ScheduleRelationship)}
	return n
}

func cloneVD(d *gtfsrt.VehicleDescriptor) *gtfsrt.VehicleDescriptor {
	return &gtfsrt.VehicleDescriptor{Id: cp(d.Id), Label: cp(d.Label), LicensePlate: cp(d.LicensePlate)}
}

type c02Msg struct {
	msg      *gtfsrt.FeedMessage
	tz       tzOpt
	skip     string // non-empty: outside the quantifier (conflicting duplicates, empty descriptor in a trip update)
	hasAssoc bool
	// per pool pair: the descriptors, whether the trip occurs at all, and whether some entity associates trip i with vehicle i
	td    [2]*gtfsrt.TripDescriptor
	vd    [2]*gtfsrt.VehicleDescriptor
	trip  [2]bool
	assoc [2]bool
	// trip ids named by position entities that carry no vehicle descriptor (each by one such entity)
	idlessTrips []string
}

func genC02(c *Ctx, rich bool) c02Msg {
	var out c02Msg
	out.tz = tzOptions[pick(c, "timezone", b2i(rich)*3, len(tzOptions))]
	hv := make([]uint64, len(tsAlphabet))
	copy(hv, tsAlphabet)
	m := newFeed(optU64(c, "header.timestamp", true, hv...))
	t := []*gtfsrt.TripDescriptor{genTripDesc(c, "T1.", 1, rich), genTripDesc(c, "T2.", 2, rich)}
	v := []*gtfsrt.VehicleDescriptor{genVehicleDesc(c, "V1.", 1, rich), genVehicleDesc(c, "V2.", 2, rich)}
	if dumpTripID(refTripID(t[0], time.UTC)) == dumpTripID(refTripID(t[1], time.UTC)) {
		out.skip = "trip pool entries coincide"
	}
	vid0, vid1 := refVehicleID(v[0]), refVehicleID(v[1])
	if vid0 != nil && vid1 != nil && *vid0 == *vid1 {
		out.skip = "vehicle pool entries coincide"
	}
	var ents []*gtfsrt.FeedEntity
	for i := 0; i < 2; i++ {
		p := fmt.Sprintf("e.tu%d.", i+1)
		if present(c, p+"present", i == 0 || rich) {
			tu := &gtfsrt.TripUpdate{Trip: cloneTD(t[i])}
			out.trip[i] = true
			if present(c, p+"vehicle", rich) {
				tu.Vehicle = cloneVD(v[i])
				out.hasAssoc = true
				out.assoc[i] = true
				if refVehicleID(v[i]) == nil {
					out.skip = "empty vehicle descriptor inside a trip update"
				}
			}
			tu.StopTimeUpdate = genStopTimeUpdates(c, p, i+1, rich)
			ents = append(ents, &gtfsrt.FeedEntity{Id: sp(fmt.Sprintf("tu%d", i+1)), TripUpdate: tu})
		}
		p = fmt.Sprintf("e.vp%d.", i+1)
		if present(c, p+"present", i == 0 || rich) {
			vp := genVehiclePosition(c, p, i+1, rich)
			vp.Vehicle = cloneVD(v[i])
			if present(c, p+"trip", rich) {
				vp.Trip = cloneTD(t[i])
				out.hasAssoc = true
				out.trip[i] = true
				out.assoc[i] = true
			}
			ents = append(ents, &gtfsrt.FeedEntity{Id: sp(fmt.Sprintf("vp%d", i+1)), Vehicle: vp})
		}
	}
	if present(c, "e.alert.present", rich) {
		ents = append(ents, &gtfsrt.FeedEntity{Id: sp("alert1"), Alert: genSimpleAlert(c, "e.alert.", rich)})
	}
	if present(c, "e.vp0.present", rich) {
		vp := genVehiclePosition(c, "e.vp0.", 5, rich)
		ents = append(ents, &gtfsrt.FeedEntity{Id: sp("vp0"), Vehicle: vp})
		// further vehicles without any descriptor; each of them (and vp0) may name a trip of its own
		more := c.Choose("e.vp0.more_vehicles_without_descriptor", 3)
		named := c.Choose("e.vp0.each_names_a_trip_of_its_own", 2) == 1
		for k := 0; k <= more; k++ {
			e := ents[len(ents)-1]
			if k > 0 {
				lat, lon := float32(10+k), float32(20+k)
				e = &gtfsrt.FeedEntity{Id: sp(fmt.Sprintf("vp0-%d", k)), Vehicle: &gtfsrt.VehiclePosition{Position: &gtfsrt.Position{Latitude: &lat, Longitude: &lon}, StopId: sp(fmt.Sprintf("VS0-%d", k))}}
				ents = append(ents, e)
			}
			if named {
				id := fmt.Sprintf("trip-of-a-nameless-vehicle-%d", k)
				e.Vehicle.Trip = &gtfsrt.TripDescriptor{TripId: sp(id)}
				out.idlessTrips = append(out.idlessTrips, id)
			}
		}
	}
	switch c.Choose("entity_order", 3) {
	case 1:
		for i, j := 0, len(ents)-1; i < j; i, j = i+1, j-1 {
			ents[i], ents[j] = ents[j], ents[i]
		}
	case 2:
		if len(ents) > 1 {
			ents = append(ents[1:], ents[0])
		}
	}
	m.Entity = ents
	out.msg = m
	out.td = [2]*gtfsrt.TripDescriptor{t[0], t[1]}
	out.vd = [2]*gtfsrt.VehicleDescriptor{v[0], v[1]}
	return out
}

// c02CheckLinks: Trip.Vehicle is a surfaced field too. For each pool pair the wire either
// associates trip i with vehicle i (through the trip update's vehicle descriptor or the
// position's trip descriptor) or with nothing: the trip's vehicle must be that one, or nil.
func c02CheckLinks(c *Ctx, g c02Msg, r *gtfs.Realtime, tz *time.Location, label string) {
	if vid0, vid1 := refVehicleID(g.vd[0]), refVehicleID(g.vd[1]); vid0 == nil || vid1 == nil {
		return // vehicles without any identifier: links are C04's business
	}
	// vehicles without identifier: those whose position entity names a trip lead to that trip (and back)
	{
		got := map[string]int{}
		for i := range r.Vehicles {
			v := &r.Vehicles[i]
			if v.ID != nil && *v.ID != (gtfs.VehicleID{}) {
				continue
			}
			if v.Trip != nil {
				got[v.Trip.ID.ID]++
				if v.Trip.Vehicle == nil || (v.Trip.Vehicle.ID != nil && *v.Trip.Vehicle.ID != (gtfs.VehicleID{})) {
					c.Fail("transcription"+label+":Vehicle.Trip", "a vehicle without identifier names trip %q, but that trip does not lead back to a vehicle without identifier", v.Trip.ID.ID)
				}
			}
		}
		for _, id := range g.idlessTrips {
			if got[id] != 1 {
				c.Fail("transcription"+label+":Vehicle.Trip", "a position entity without vehicle descriptor names trip %q: %d vehicles without identifier lead to it, want 1 (%d such entities in the message)", id, got[id], len(g.idlessTrips))
			}
			delete(got, id)
		}
		for id, n := range got {
			c.Fail("transcription"+label+":Vehicle.Trip", "%d vehicles without identifier lead to trip %q, which no such entity names", n, id)
		}
	}
	for i := 0; i < 2; i++ {
		if !g.trip[i] {
			continue
		}
		want := dumpTripID(refTripID(g.td[i], tz))
		for k := range r.Trips {
			if dumpTripID(r.Trips[k].ID) != want {
				continue
			}
			got := "nil"
			if r.Trips[k].Vehicle != nil {
				got = dumpVehicleID(r.Trips[k].Vehicle.ID)
			}
			exp := "nil"
			if g.assoc[i] {
				exp = dumpVehicleID(refVehicleID(g.vd[i]))
			}
			if got != exp {
				c.Fail("transcription"+label+":Trip.Vehicle", "trip %s: vehicle %s, on the wire %s", want, got, exp)
			}
		}
	}
}

func c02Harness(rich bool) Harness {
	return func(c *Ctx) {
		g := genC02(c, rich)
		if c.Choose("fields_the_library_does_not_surface_are_populated", 2) == 1 {
			addUnsurfaced(g.msg)
			c.Witness("unsurfaced_fields_populated")
		}
		b := marshalFeed(g.msg)
		in := append([]byte(nil), b...)
		c.Input(hash64(string(b)+g.tz.name), len(g.msg.Entity) >= 2, func() string { return "timezone=" + g.tz.name + "\n" + feedText(g.msg) })
		if g.skip != "" {
			c.Witness("skipped_outside_quantifier")
			// still executed for crash freedom
			parseRT(c, b, &gtfs.ParseRealtimeOptions{Timezone: g.tz.loc})
			return
		}
		// the process-local zone (TZ) is an environment input: it is set to something else than UTC while
		// the library runs - "UTC when none is given" does not mean "whatever the machine is set to"
		savedLocal0 := time.Local
		time.Local = time.FixedZone("Elsewhere", 19800)
		r, err, ok := parseRT(c, b, &gtfs.ParseRealtimeOptions{Timezone: g.tz.loc})
		time.Local = savedLocal0
		if !ok {
			return
		}
		c.Steps(1 + len(g.msg.Entity))
		if err != nil {
			c.Fail("valid-message-rejected", "ParseRealtime rejected a valid message: %v", err)
			return
		}
		if string(b) != string(in) {
			c.Fail("input-mutated", "ParseRealtime modified its input buffer")
		}
		want := refParse(g.msg, g.tz.loc)
		c02MergeFallback(want, r)
		o := rtDumpOpts{sortVehicles: true, sortTrips: true}
		wd, gd := dumpRealtime(want.rt, o), dumpRealtime(r, o)
		c.Outcome(gd)
		if wd != gd {
			c.Fail(c02Signature(wd, gd), "result differs from the wire content (timezone=%s)\n%s", g.tz.name, diffLines(wd, gd))
		}
		c02CheckLinks(c, g, r, g.tz.loc, "")
		// the same bytes under another zone, in the same process: the result must follow the option
		// of THIS call (the twin of a fixed zone has the same name and another offset)
		tz2 := tzOptions[c02Twin[pickIndex(g.tz.name)]]
		// ... and with the process-local zone (TZ) set to something else than UTC: "UTC when none is given"
		// does not mean "whatever the machine is set to"
		savedLocal := time.Local
		time.Local = time.FixedZone("Elsewhere", 19800)
		r2, err2, ok2 := parseRT(c, b, &gtfs.ParseRealtimeOptions{Timezone: tz2.loc})
		time.Local = savedLocal
		if !ok2 {
			return
		}
		if err2 != nil {
			c.Fail("valid-message-rejected", "second parse (timezone=%s): %v", tz2.name, err2)
			return
		}
		want2 := refParse(g.msg, tz2.loc)
		c02MergeFallback(want2, r2)
		if wd2, gd2 := dumpRealtime(want2.rt, o), dumpRealtime(r2, o); wd2 != gd2 {
			c.Fail("transcription-after-another-zone:"+firstDiffKind(wd2, gd2), "the same message parsed again with timezone=%s (after timezone=%s) differs from the wire content\n%s", tz2.name, g.tz.name, diffLines(wd2, gd2))
		}
		if g.tz.loc != nil && g.tz.loc != time.UTC {
			c.Witness("non_utc_zone")
		}
		if g.hasAssoc {
			c.Witness("trip_vehicle_association")
		}
	}
}

// c02Sizes: large messages: N trips with M stop time updates each, N vehicles, N alerts with M
// selectors, periods and translations, for N and M around powers of two: counts at which slices and maps grow.
var c02SizeN = []int{1, 8, 9, 65, 257, 1025}
var c02SizeM = []int{0, 1, 9, 65}

func c02Sizes(c *Ctx) {
	n := c02SizeN[c.Free("entities_per_kind", len(c02SizeN))]
	mm := c02SizeM[c.Free("repeated_fields", len(c02SizeM))]
	if n*mm > 20000 {
		mm = 17 // 1025 trips x 17 updates
	}
	tz := tzOptions[c.Free("timezone", len(tzOptions))]
	ts := uint64(1700000000)
	m := newFeed(&ts)
	for i := 0; i < n; i++ {
		td := &gtfsrt.TripDescriptor{TripId: sp(fmt.Sprintf("T%05d", (i*7919)%n)), RouteId: sp(fmt.Sprintf("R%d", i%5)), StartDate: sp("20240310"), StartTime: sp(fmt.Sprintf("%02d:%02d:00", i%30, i%60))}
		tu := &gtfsrt.TripUpdate{Trip: td, Vehicle: &gtfsrt.VehicleDescriptor{Id: sp(fmt.Sprintf("V%05d", (i*7919)%n))}}
		for s := 0; s < mm; s++ {
			seq := uint32(s + 1)
			tu.StopTimeUpdate = append(tu.StopTimeUpdate, &gtfsrt.TripUpdate_StopTimeUpdate{StopSequence: &seq, StopId: sp(fmt.Sprintf("S%d-%d", i, s)),
				Arrival: &gtfsrt.TripUpdate_StopTimeEvent{Time: cp2(int64(ts) + int64(60*s+i))}, Departure: &gtfsrt.TripUpdate_StopTimeEvent{Delay: cp32(int32(s - i))}})
		}
		m.Entity = append(m.Entity, &gtfsrt.FeedEntity{Id: sp(fmt.Sprintf("tu%d", i)), TripUpdate: tu})
	}
	for i := 0; i < n; i++ {
		lat, lon := float32(40)+float32(i)/1000, float32(-73)-float32(i)/1000
		m.Entity = append(m.Entity, &gtfsrt.FeedEntity{Id: sp(fmt.Sprintf("vp%d", i)), Vehicle: &gtfsrt.VehiclePosition{Vehicle: &gtfsrt.VehicleDescriptor{Id: sp(fmt.Sprintf("V%05d", i))},
			Position: &gtfsrt.Position{Latitude: &lat, Longitude: &lon}, StopId: sp(fmt.Sprintf("VS%d", i)), Timestamp: u64p(ts + uint64(i))}})
	}
	for i := 0; i < n; i++ {
		a := &gtfsrt.Alert{Cause: gtfsrt.Alert_Cause(1 + i%12).Enum(), Effect: gtfsrt.Alert_Effect(1 + i%9).Enum()}
		for s := 0; s <= mm; s++ {
			a.InformedEntity = append(a.InformedEntity, &gtfsrt.EntitySelector{StopId: sp(fmt.Sprintf("AS%d-%d", i, s)), RouteId: sp(fmt.Sprintf("AR%d", s%3))})
			a.ActivePeriod = append(a.ActivePeriod, &gtfsrt.TimeRange{Start: u64p(ts + uint64(100*s)), End: u64p(ts + uint64(100*s+50))})
		}
		a.HeaderText = &gtfsrt.TranslatedString{}
		for s := 0; s <= mm; s++ {
			a.HeaderText.Translation = append(a.HeaderText.Translation, &gtfsrt.TranslatedString_Translation{Text: sp(fmt.Sprintf("header %d/%d", i, s)), Language: sp(fmt.Sprintf("l%d", s))})
		}
		m.Entity = append(m.Entity, &gtfsrt.FeedEntity{Id: sp(fmt.Sprintf("al%d", i)), Alert: a})
	}
	b := marshalFeed(m)
	c.Input(hash64(string(b)+tz.name), true, func() string {
		return fmt.Sprintf("%d trips x %d updates, %d vehicles, %d alerts x %d selectors/periods/translations, timezone=%s", n, mm, n, n, mm+1, tz.name)
	})
	r, err, ok := parseRT(c, b, &gtfs.ParseRealtimeOptions{Timezone: tz.loc})
	if !ok {
		return
	}
	c.Steps(3 * n)
	if err != nil {
		c.Fail("valid-message-rejected", "ParseRealtime rejected a valid message: %v", err)
		return
	}
	want := refParse(m, tz.loc)
	o := rtDumpOpts{sortVehicles: true, sortTrips: true}
	wd, gd := dumpRealtime(want.rt, o), dumpRealtime(r, o)
	c.Outcome(gd)
	if wd != gd {
		c.Fail(c02Signature(wd, gd), "result differs from the wire content (%d entities per kind, %d repeated fields, timezone=%s)\n%s", n, mm, tz.name, diffLines(wd, gd))
	}
	c.Witness("large_message")
}

func cp32(v int32) *int32 { return &v }

// enumValues lists every value of a wire enum, the given one first, the others ascending.
func enumValues(names map[int32]string, first int32) []int32 {
	out := []int32{first}
	var rest []int32
	for v := range names {
		if v != first {
			rest = append(rest, v)
		}
	}
	sort.Slice(rest, func(i, j int) bool { return rest[i] < rest[j] })
	return append(out, rest...)
}

// addUnsurfaced populates the wire fields the library does not surface (as of the pinned
// commit): their presence must not change anything that is surfaced. Entities of kinds the
// library does not read (shape, stop, trip_modifications) are appended as well.
func addUnsurfaced(m *gtfsrt.FeedMessage) {
	m.Header.Incrementality = gtfsrt.FeedHeader_DIFFERENTIAL.Enum()
	proto.SetExtension(m.Header, gtfsrt.E_NyctFeedHeader, &gtfsrt.NyctFeedHeader{NyctSubwayVersion: sp("1.0"),
		TripReplacementPeriod: []*gtfsrt.TripReplacementPeriod{{RouteId: sp("R1"), ReplacementPeriod: &gtfsrt.TimeRange{End: u64p(1700001800)}}}})
	tr := func(s string) *gtfsrt.TranslatedString {
		return &gtfsrt.TranslatedString{Translation: []*gtfsrt.TranslatedString_Translation{{Text: sp(s), Language: sp("en")}}}
	}
	for _, e := range m.Entity {
		if tu := e.TripUpdate; tu != nil {
			tu.Timestamp = u64p(1700000555)
			tu.Delay = cp32(-42)
			tu.TripProperties = &gtfsrt.TripUpdate_TripProperties{TripId: sp("replacement-trip"), StartDate: sp("20240305"), StartTime: sp("11:22:33"), ShapeId: sp("SHX")}
			if tu.Trip != nil {
				tu.Trip.ModifiedTrip = &gtfsrt.TripDescriptor_ModifiedTripSelector{ModificationsId: sp("mod-1"), AffectedTripId: sp("affected-1")}
			}
			if tu.Vehicle != nil {
				tu.Vehicle.WheelchairAccessible = gtfsrt.VehicleDescriptor_WHEELCHAIR_ACCESSIBLE.Enum()
			}
			for _, u := range tu.StopTimeUpdate {
				u.DepartureOccupancyStatus = gtfsrt.VehiclePosition_STANDING_ROOM_ONLY.Enum()
				u.StopTimeProperties = &gtfsrt.TripUpdate_StopTimeUpdate_StopTimeProperties{AssignedStopId: sp("assigned-elsewhere")}
			}
		}
		if vp := e.Vehicle; vp != nil {
			vp.MultiCarriageDetails = []*gtfsrt.VehiclePosition_CarriageDetails{{Id: sp("car1"), Label: sp("A"), OccupancyStatus: gtfsrt.VehiclePosition_FULL.Enum(), OccupancyPercentage: cp32(80), CarriageSequence: u32p(1)},
				{Id: sp("car2"), OccupancyStatus: gtfsrt.VehiclePosition_EMPTY.Enum(), CarriageSequence: u32p(2)}}
			if vp.Vehicle != nil {
				vp.Vehicle.WheelchairAccessible = gtfsrt.VehicleDescriptor_WHEELCHAIR_INACCESSIBLE.Enum()
			}
		}
		if a := e.Alert; a != nil {
			a.TtsHeaderText, a.TtsDescriptionText = tr("tts header"), tr("tts description")
			a.SeverityLevel = gtfsrt.Alert_SEVERE.Enum()
			a.CauseDetail, a.EffectDetail = tr("cause detail"), tr("effect detail")
			a.Image = &gtfsrt.TranslatedImage{LocalizedImage: []*gtfsrt.TranslatedImage_LocalizedImage{{Url: sp("http://example.com/i.png"), MediaType: sp("image/png"), Language: sp("en")}}}
			a.ImageAlternativeText = tr("alt text")
		}
	}
	m.Entity = append(m.Entity,
		&gtfsrt.FeedEntity{Id: sp("shape-entity"), Shape: &gtfsrt.Shape{ShapeId: sp("SHX"), EncodedPolyline: sp("_p~iF~ps|U_ulLnnqC")}},
		&gtfsrt.FeedEntity{Id: sp("stop-entity"), Stop: &gtfsrt.Stop{StopId: sp("new-stop"), StopName: tr("New stop"), StopLat: f32p(40.1), StopLon: f32p(-73.9), WheelchairBoarding: gtfsrt.Stop_AVAILABLE.Enum()}},
		&gtfsrt.FeedEntity{Id: sp("mods-entity"), TripModifications: &gtfsrt.TripModifications{SelectedTrips: []*gtfsrt.TripModifications_SelectedTrips{{TripIds: []string{"T1", "T2"}, ShapeId: sp("SHX")}},
			StartTimes: []string{"10:00:00"}, ServiceDates: []string{"20240305"},
			Modifications: []*gtfsrt.TripModifications_Modification{{StartStopSelector: &gtfsrt.StopSelector{StopId: sp("S1")}, EndStopSelector: &gtfsrt.StopSelector{StopSequence: u32p(4)},
				PropagatedModificationDelay: cp32(120), ReplacementStops: []*gtfsrt.ReplacementStop{{StopId: sp("new-stop"), TravelTimeToStop: cp32(60)}}, ServiceAlertId: sp("al0"), LastModifiedTime: u64p(1700000000)}}}})
}

func f32p(v float32) *float32 { return &v }

// c02Signature names the first differing line kind (Trip / STU / Vehicle / Alert / CreatedAt).
func c02Signature(want, got string) string {
	return "transcription:" + firstDiffKind(want, got)
}

func init() {
	register(&Check{
		ID:    "C02",
		Level: "model_checking",
		Rule: "conflict-free messages from 2 trip + 2 vehicle descriptors in 6 entity slots (TU T1, VP V1, TU T2, VP V2, alert, id-less VP), 0-3 or 7 stop time updates, every optional wire field present/absent with boundary values (timestamps 0/1/2^31/DST-gap/DST-fold/2100, ids padded with blanks and U+00A0, delays incl. int32 extremes, all enum values used by the library), x Timezone option {nil, UTC, +05:30, America/New_York, Europe/London, two fixed zones that share the name EST but not the offset, America/Santiago - whose DST starts at local midnight - with start dates on its switch days}, x 3 entity orders; within k deviations (quick 2, thorough 3) of a sparse and a rich base; " +
			"every value of the surfaced wire enums; optionally every wire field the library does not surface populated (tts texts, severity, images, trip properties, modified trip, carriage details, wheelchair accessibility, departure occupancy, incrementality, NYCT header) and entities of unread kinds (shape, stop, trip_modifications) appended - nothing surfaced may change; plus messages of 1..1025 trips x 0..65 stop time updates, as many vehicles, and alerts with 1..66 selectors / periods / translations, under every zone option; " +
			"non-trivial = distinct (message bytes, zone) with >= 2 entities; oracle = reference interpretation written from the statement",
		Assumptions: []string{"protobuf-go Marshal/Unmarshal is trusted", "messages outside the quantifier (coinciding pool entries, empty vehicle descriptor inside a trip update) are executed for crash freedom only", "the harness embeds time/tzdata"},
		Scenarios: func(tier string) []*Scenario {
			k := 2
			if tier == "thorough" {
				k = 3
			}
			return []*Scenario{{Name: "sparse", Bound: k, Run: c02Harness(false)}, {Name: "rich", Bound: k, Run: c02Harness(true)}, {Name: "sizes", Bound: -1, Run: c02Sizes}}
		},
	})
}
