//go:build !race

package main

const raceEnabled = false

func raceErrors() int { return 0 }
