package main

// C13 - hashes change exactly when the data changes.
//
// Enumerated: trips and vehicles within k deviations of several base values; every field has
// alternatives chosen to attack the encoding (adjacent variable-length strings, nil vs zero,
// number of updates, per-index fields).
// Oracle: the byte stream fed to the hash.Hash is observed through a recording hash. Over
// ALL enumerated values (across workers): stream -> data key and data key -> stream must both
// be functions, where the data key is an independent, obviously injective rendering of
// exactly the fields the statement lists. Per value: equal stream for a deep copy, for the
// same instants in another zone, with the in-message flag flipped, with another back
// reference, and when hashed twice.

import (
	"bytes"
	"fmt"
	"strings"
	"time"

	"github.com/jamespfennell/gtfs"
	gtfsrt "github.com/jamespfennell/gtfs/proto"
)

type recHash struct{ buf bytes.Buffer }

func (r *recHash) Write(p []byte) (int, error) { return r.buf.Write(p) }
func (r *recHash) Sum(b []byte) []byte         { return append(b, r.buf.Bytes()...) }
func (r *recHash) Reset()                      { r.buf.Reset() }
func (r *recHash) Size() int                   { return 0 }
func (r *recHash) BlockSize() int              { return 1 }

// pick asks for one of n values with `base` as the default; the other values follow in
// ascending order.
func pick(c *Ctx, label string, base, n int) int {
	v := c.Choose(label, n)
	if v == 0 {
		return base
	}
	if v <= base {
		return v - 1
	}
	return v
}

// adjacent variable-length fields: boundary shifts, and strings that contain what an encoding
// might use as a delimiter or terminator (NUL, comma, a length-like prefix byte)
// ... and pairs of long strings of equal length that differ only in their last byte: 33, 257 and
// 4097 bytes (beyond any fixed-size scratch buffer of 32, 256 or 4096 bytes)
var hashStrings = []string{"", "a", "ab", "b", "a\x00b", "b\x00b", "a,b", "\x01a",
	strings.Repeat("L", 32) + "x", strings.Repeat("L", 32) + "y", strings.Repeat("M", 256) + "x", strings.Repeat("M", 256) + "y", strings.Repeat("N", 4096) + "x", strings.Repeat("N", 4096) + "y"}
var hashTimes = []int64{0, 1700000000, 1700000001}

type tripBase struct {
	id, route, dir, startTime, startDate, sr, nUpdates int
	// per update defaults (index into the alphabets), varied by update index
	seq, stop, track, usr, arr, dep, evTime, evDelay, evUnc int
}

var tripBases = map[string]tripBase{
	"empty": {},
	"full":  {id: 2, route: 1, dir: 1, startTime: 2, startDate: 1, sr: 1, nUpdates: 2, seq: 2, stop: 2, track: 2, usr: 1, arr: 1, dep: 1, evTime: 2, evDelay: 2, evUnc: 2},
	"mixed": {id: 1, route: 0, dir: 2, startTime: 0, startDate: 2, sr: 0, nUpdates: 1, seq: 1, stop: 3, track: 0, usr: 0, arr: 1, dep: 0, evTime: 1, evDelay: 0, evUnc: 1},
}

func strPtrAlt(i int) *string { // 0 nil, 1.. hashStrings
	if i == 0 {
		return nil
	}
	s := hashStrings[i-1]
	return &s
}

func genTrip(c *Ctx, pfx string, b tripBase) *gtfs.Trip {
	t := &gtfs.Trip{}
	t.ID.ID = hashStrings[pick(c, pfx+"id", b.id, len(hashStrings))]
	t.ID.RouteID = hashStrings[pick(c, pfx+"route", b.route, len(hashStrings))]
	t.ID.DirectionID = gtfs.DirectionID(pick(c, pfx+"dir", b.dir, 3))
	switch pick(c, pfx+"startTime", b.startTime, 5) {
	case 1:
		t.ID.HasStartTime = true
	case 2:
		t.ID.HasStartTime, t.ID.StartTime = true, time.Second
	case 3:
		t.ID.HasStartTime, t.ID.StartTime = true, 25*time.Hour
	case 4: // equal to one second in the low 32 bits of the nanosecond count
		t.ID.HasStartTime, t.ID.StartTime = true, time.Second+(1<<32)
	}
	switch pick(c, pfx+"startDate", b.startDate, 4) {
	case 1:
		t.ID.HasStartDate, t.ID.StartDate = true, time.Unix(1700000000, 0).UTC()
	case 2:
		t.ID.HasStartDate, t.ID.StartDate = true, time.Unix(1700086400, 0).UTC()
	case 3:
		t.ID.HasStartDate, t.ID.StartDate = true, time.Unix(0, 0).UTC()
	}
	t.ID.ScheduleRelationship = gtfsrt.TripDescriptor_ScheduleRelationship(pick(c, pfx+"sr", b.sr, 4))
	n := pick(c, pfx+"nUpdates", b.nUpdates, 4)
	for i := 0; i < n; i++ {
		p := fmt.Sprintf("%su%d.", pfx, i)
		// defaults vary with the index so that updates at index >= 1 differ from index 0
		u := gtfs.StopTimeUpdate{}
		switch pick(c, p+"seq", (b.seq+i)%3, 4) {
		case 1:
			v := uint32(0)
			u.StopSequence = &v
		case 2:
			v := uint32(5 + i)
			u.StopSequence = &v
		case 3: // equal to case 2 in the low 16 bits
			v := uint32(5 + i + 65536)
			u.StopSequence = &v
		}
		u.StopID = strPtrAlt(pick(c, p+"stop", (b.stop+i)%5, len(hashStrings)+1))
		u.NyctTrack = strPtrAlt(pick(c, p+"track", (b.track+i)%5, len(hashStrings)+1))
		u.ScheduleRelationship = gtfsrt.TripUpdate_StopTimeUpdate_ScheduleRelationship(pick(c, p+"sr", (b.usr+i)%3, 3))
		ev := func(name string, present int) *gtfs.StopTimeEvent {
			if pick(c, p+name, present, 2) == 0 {
				return nil
			}
			e := &gtfs.StopTimeEvent{}
			switch pick(c, p+name+".time", (b.evTime+i)%3, 4) {
			case 1:
				v := time.Unix(0, 0).UTC()
				e.Time = &v
			case 2:
				v := time.Unix(1700000000+int64(i), 0).UTC()
				e.Time = &v
			case 3: // equal to case 2 modulo 2^32
				v := time.Unix(1700000000+int64(i)+(1<<32), 0).UTC()
				e.Time = &v
			}
			switch pick(c, p+name+".delay", (b.evDelay+i)%3, 5) {
			case 1:
				v := time.Duration(0)
				e.Delay = &v
			case 2:
				v := time.Duration(5+i) * time.Second
				e.Delay = &v
			case 3: // equal to case 2 in the low 32 bits of the nanosecond count
				v := time.Duration(5+i)*time.Second + (1 << 32)
				e.Delay = &v
			case 4: // equal to case 2 in whole seconds
				v := time.Duration(5+i)*time.Second + 500*time.Millisecond
				e.Delay = &v
			}
			switch pick(c, p+name+".unc", (b.evUnc+i)%3, 4) {
			case 1:
				v := int32(0)
				e.Uncertainty = &v
			case 2:
				v := int32(7 + i)
				e.Uncertainty = &v
			case 3:
				v := int32(7 + i + 65536)
				e.Uncertainty = &v
			}
			return e
		}
		u.Arrival = ev("arr", b.arr)
		u.Departure = ev("dep", b.dep)
		t.StopTimeUpdates = append(t.StopTimeUpdates, u)
	}
	return t
}

func kPtr[T any](p *T) string {
	if p == nil {
		return "nil"
	}
	return fmt.Sprintf("(%v)", *p)
}

func kStr(p *string) string {
	if p == nil {
		return "nil"
	}
	return fmt.Sprintf("%q", *p)
}

func kTime(p *time.Time) string {
	if p == nil {
		return "nil"
	}
	return fmt.Sprintf("(%d)", p.Unix())
}

// tripKey renders exactly the data fields the statement lists, injectively.
func tripKey(t *gtfs.Trip) string {
	var sb strings.Builder
	fmt.Fprintf(&sb, "trip{id=%q route=%q dir=%d hasST=%v st=%d hasSD=%v sd=%d sr=%d n=%d", t.ID.ID, t.ID.RouteID, t.ID.DirectionID,
		t.ID.HasStartTime, int64(t.ID.StartTime), t.ID.HasStartDate, t.ID.StartDate.Unix(), t.ID.ScheduleRelationship, len(t.StopTimeUpdates))
	for i := range t.StopTimeUpdates {
		u := &t.StopTimeUpdates[i]
		fmt.Fprintf(&sb, " [seq=%s stop=%s track=%s sr=%d", kPtr(u.StopSequence), kStr(u.StopID), kStr(u.NyctTrack), u.ScheduleRelationship)
		for _, e := range []*gtfs.StopTimeEvent{u.Arrival, u.Departure} {
			if e == nil {
				sb.WriteString(" ev=nil")
				continue
			}
			var d *int64
			if e.Delay != nil {
				v := int64(*e.Delay)
				d = &v
			}
			fmt.Fprintf(&sb, " ev{t=%s d=%s u=%s}", kTime(e.Time), kPtr(d), kPtr(e.Uncertainty))
		}
		sb.WriteString("]")
	}
	sb.WriteString("}")
	return sb.String()
}

func vehicleKey(v *gtfs.Vehicle) string {
	var sb strings.Builder
	sb.WriteString("vehicle{")
	if v.ID == nil {
		sb.WriteString("id=nil")
	} else {
		fmt.Fprintf(&sb, "id{%q %q %q}", v.ID.ID, v.ID.Label, v.ID.LicensePlate)
	}
	if v.Trip == nil {
		sb.WriteString(" trip=nil")
	} else {
		sb.WriteString(" " + tripKey(v.Trip))
	}
	if v.Position == nil {
		sb.WriteString(" pos=nil")
	} else {
		p := v.Position
		fmt.Fprintf(&sb, " pos{%s %s %s %s %s}", kPtr(p.Latitude), kPtr(p.Longitude), kPtr(p.Bearing), kPtr(p.Odometer), kPtr(p.Speed))
	}
	var cs, os *int32
	if v.CurrentStatus != nil {
		x := int32(*v.CurrentStatus)
		cs = &x
	}
	if v.OccupancyStatus != nil {
		x := int32(*v.OccupancyStatus)
		os = &x
	}
	fmt.Fprintf(&sb, " css=%s stop=%s status=%s ts=%s cong=%d occ=%s occp=%s}", kPtr(v.CurrentStopSequence), kStr(v.StopID), kPtr(cs),
		kTime(v.Timestamp), int32(v.CongestionLevel), kPtr(os), kPtr(v.OccupancyPercentage))
	return sb.String()
}

func tripStream(t *gtfs.Trip) string {
	h := &recHash{}
	t.Hash(h)
	return h.buf.String()
}

func vehicleStream(v *gtfs.Vehicle) string {
	h := &recHash{}
	v.Hash(h)
	return h.buf.String()
}

var zoneNY = mustLoc("America/New_York")

func mustLoc(name string) *time.Location {
	l, err := time.LoadLocation(name)
	if err != nil {
		panic(err)
	}
	return l
}

func inZonePtr(p *time.Time, z *time.Location) *time.Time {
	if p == nil {
		return nil
	}
	v := p.In(z)
	return &v
}

func cp[T any](p *T) *T {
	if p == nil {
		return nil
	}
	v := *p
	return &v
}

// cloneTrip deep-copies a trip, expressing all instants in zone z.
func cloneTrip(t *gtfs.Trip, z *time.Location) *gtfs.Trip {
	if t == nil {
		return nil
	}
	n := &gtfs.Trip{ID: t.ID, IsEntityInMessage: t.IsEntityInMessage, Vehicle: t.Vehicle}
	n.ID.ID = strings.Clone(t.ID.ID)
	n.ID.RouteID = strings.Clone(t.ID.RouteID)
	if z != nil {
		n.ID.StartDate = t.ID.StartDate.In(z)
	}
	for i := range t.StopTimeUpdates {
		u := t.StopTimeUpdates[i]
		nu := gtfs.StopTimeUpdate{StopSequence: cp(u.StopSequence), StopID: cp(u.StopID), NyctTrack: cp(u.NyctTrack), ScheduleRelationship: u.ScheduleRelationship}
		ce := func(e *gtfs.StopTimeEvent) *gtfs.StopTimeEvent {
			if e == nil {
				return nil
			}
			ne := &gtfs.StopTimeEvent{Time: cp(e.Time), Delay: cp(e.Delay), Uncertainty: cp(e.Uncertainty)}
			if z != nil {
				ne.Time = inZonePtr(e.Time, z)
			}
			return ne
		}
		nu.Arrival, nu.Departure = ce(u.Arrival), ce(u.Departure)
		n.StopTimeUpdates = append(n.StopTimeUpdates, nu)
	}
	return n
}

func cloneVehicle(v *gtfs.Vehicle, z *time.Location) *gtfs.Vehicle {
	n := &gtfs.Vehicle{ID: cp(v.ID), Trip: cloneTrip(v.Trip, z), CurrentStopSequence: cp(v.CurrentStopSequence), StopID: cp(v.StopID),
		CurrentStatus: cp(v.CurrentStatus), Timestamp: cp(v.Timestamp), CongestionLevel: v.CongestionLevel, OccupancyStatus: cp(v.OccupancyStatus),
		OccupancyPercentage: cp(v.OccupancyPercentage), IsEntityInMessage: v.IsEntityInMessage}
	if z != nil {
		n.Timestamp = inZonePtr(v.Timestamp, z)
	}
	if v.Position != nil {
		p := v.Position
		n.Position = &gtfs.Position{Latitude: cp(p.Latitude), Longitude: cp(p.Longitude), Bearing: cp(p.Bearing), Odometer: cp(p.Odometer), Speed: cp(p.Speed)}
	}
	return n
}

func c13Trip(baseName string) Harness {
	b := tripBases[baseName]
	return func(c *Ctx) {
		t := genTrip(c, "", b)
		key := tripKey(t)
		var stream string
		var variants [6]string
		pan, where, text, stack := guard(func() {
			stream = tripStream(t)
			variants[0] = tripStream(t)
			variants[1] = tripStream(cloneTrip(t, nil))
			variants[2] = tripStream(cloneTrip(t, zoneNY))
			f := cloneTrip(t, nil)
			f.IsEntityInMessage = !t.IsEntityInMessage
			variants[3] = tripStream(f)
			g := cloneTrip(t, nil)
			g.Vehicle = &gtfs.Vehicle{ID: &gtfs.VehicleID{ID: "other"}, Trip: g}
			variants[4] = tripStream(g)
			// where arrival and departure are equal in value, ONE object serving as both hashes like two
			variants[5] = stream
			h := cloneTrip(t, nil)
			shared := false
			for i := range h.StopTimeUpdates {
				u := &h.StopTimeUpdates[i]
				if u.Arrival != nil && u.Departure != nil && dumpEvent(u.Arrival) == dumpEvent(u.Departure) {
					u.Departure = u.Arrival
					shared = true
				}
			}
			if shared {
				variants[5] = tripStream(h)
				c.Witness("one_event_object_as_arrival_and_departure")
			}
		})
		c.Input(hash64(key), len(t.StopTimeUpdates) > 0 || t.ID.ID != "", func() string { return key })
		if pan {
			c.Fail("panic:"+where+":"+text, "Trip.Hash panicked: %s\n%s", text, stack)
			return
		}
		c.Steps(6)
		names := []string{"hashed-twice", "deep-copy", "other-zone", "in-message-flag", "vehicle-backref", "shared-event-object"}
		for i, v := range variants {
			if v != stream {
				c.Fail("trip-hash-depends-on:"+names[i], "hash input differs for %s of %s\n got %x\nwant %x", names[i], key, v, stream)
			}
		}
		c.Outcome(stream)
		c.Relate("trip:stream->data", stream, key)
		c.Relate("trip:data->stream", key, stream)
		if len(t.StopTimeUpdates) >= 2 {
			c.Witness("trip_with_2+_updates")
		}
		// the same OBJECT changed in place and hashed again: the hash must follow the data, not
		// the object (identifier and number of updates unchanged, so nothing "looks" different)
		if m := c.Choose("mutate_in_place_and_rehash", 5); m > 0 {
			mutated := false
			// hash this very object last, so that nothing else was hashed between the two hashes of it
			if pan, _, _, _ := guard(func() { _ = tripStream(t) }); pan {
				return
			}
			if n := len(t.StopTimeUpdates); n > 0 {
				u := &t.StopTimeUpdates[(m-1)%n]
				switch m {
				case 1:
					d := 77 * time.Second
					if u.Arrival == nil {
						u.Arrival = &gtfs.StopTimeEvent{}
					}
					u.Arrival.Delay = &d
				case 2:
					s := "changed-stop"
					u.StopID = &s
				case 3:
					s := "changed-track"
					u.NyctTrack = &s
				case 4:
					u.Departure = nil
					v := uint32(4242)
					u.StopSequence = &v
				}
				mutated = true
			}
			if mutated {
				var again, fresh string
				pan, where, text, stack := guard(func() {
					again = tripStream(t)
					fresh = tripStream(cloneTrip(t, nil))
				})
				if pan {
					c.Fail("panic:"+where+":"+text, "Trip.Hash panicked: %s\n%s", text, stack)
					return
				}
				if again != fresh {
					c.Fail("trip-hash-depends-on:object-identity-after-in-place-change", "a trip changed in place hashes differently from an equal freshly built trip: %s", tripKey(t))
				}
				if again == stream && tripKey(t) != key {
					c.Fail("trip-hash-depends-on:object-identity-after-in-place-change", "a trip changed in place (%s -> %s) kept its hash input", key, tripKey(t))
				}
				k2 := tripKey(t)
				c.Relate("trip:stream->data", again, k2)
				c.Relate("trip:data->stream", k2, again)
				c.Witness("rehashed_after_in_place_change")
			}
		}
	}
}

// c13ManyUpdates: trips with N stop time updates (N around powers of two) that differ in one
// place only: nowhere, in the last update's arrival time / stop id / presence of departure, in one
// update in the middle, or by lacking the last update. The relations decide injectivity.
var c13UpdateCounts = []int{1, 2, 3, 8, 9, 17, 33, 65, 129, 257, 1025}

func c13ManyUpdates(c *Ctx) {
	n := c13UpdateCounts[c.Free("stop_time_updates", len(c13UpdateCounts))]
	variant := c.Free("difference", 9)
	// stops identified by stop_sequence only (legal): then no string separates the numbers of
	// consecutive updates
	sequenceOnly := c.Free("stops_identified_by_sequence_only", 2) == 1
	t := &gtfs.Trip{ID: gtfs.TripID{ID: "T", RouteID: "R"}}
	for i := 0; i < n; i++ {
		seq := uint32(i + 1)
		stop := fmt.Sprintf("S%d", i)
		at := time.Unix(int64(1700000000+60*i), 0).UTC()
		dt := time.Unix(int64(1700000030+60*i), 0).UTC()
		d := time.Duration(i) * time.Second
		u := gtfs.StopTimeUpdate{StopSequence: &seq, StopID: &stop, Arrival: &gtfs.StopTimeEvent{Time: &at}, Departure: &gtfs.StopTimeEvent{Time: &dt, Delay: &d}}
		if sequenceOnly {
			u.StopID = nil
		}
		t.StopTimeUpdates = append(t.StopTimeUpdates, u)
	}
	last := &t.StopTimeUpdates[n-1]
	mid := &t.StopTimeUpdates[n/2]
	switch variant {
	case 1:
		at := last.Arrival.Time.Add(time.Second)
		last.Arrival = &gtfs.StopTimeEvent{Time: &at}
	case 2:
		s := "x"
		if last.StopID != nil {
			s = *last.StopID + "x"
		}
		last.StopID = &s
	case 3:
		last.Departure = nil
	case 4:
		s := "x"
		if mid.StopID != nil {
			s = *mid.StopID + "x"
		}
		mid.StopID = &s
	case 7: // a time moved by 256 s / by 65536 s: differs in one high byte only
		dt := mid.Departure.Time.Add(256 * time.Second)
		mid.Departure = &gtfs.StopTimeEvent{Time: &dt, Delay: mid.Departure.Delay}
	case 8:
		dt := last.Departure.Time.Add(65536 * time.Second)
		last.Departure = &gtfs.StopTimeEvent{Time: &dt, Delay: last.Departure.Delay}
	case 5:
		t.StopTimeUpdates = t.StopTimeUpdates[:n-1]
	case 6:
		t.StopTimeUpdates[0], t.StopTimeUpdates[n-1] = t.StopTimeUpdates[n-1], t.StopTimeUpdates[0]
	}
	key := tripKey(t)
	c.Input(hash64(key), true, func() string {
		return fmt.Sprintf("trip with %d stop time updates (by sequence only: %v), difference %d", n, sequenceOnly, variant)
	})
	var stream, again string
	pan, where, text, stack := guard(func() { stream = tripStream(t); again = tripStream(cloneTrip(t, nil)) })
	if pan {
		c.Fail("panic:"+where+":"+text, "Trip.Hash panicked: %s\n%s", text, stack)
		return
	}
	c.Steps(2)
	if stream != again {
		c.Fail("trip-hash-depends-on:deep-copy", "hash input differs for a deep copy of a trip with %d updates", n)
	}
	c.Outcome(stream)
	c.Relate("trip:stream->data", stream, key)
	c.Relate("trip:data->stream", key, stream)
	c.Witness("trip_with_many_updates")
}

// c13HighBytes: trips of 17 / 33 / 65 updates; one time of one update (every index) is moved by
// 2^8, 2^16 or 2^24 seconds, i.e. differs from the base in a single high-order byte: wherever a
// number falls relative to any internal buffer boundary, all of its bytes must count.
func c13HighBytes(c *Ctx) {
	n := []int{17, 33, 65}[c.Free("stop_time_updates", 3)]
	sequenceOnly := c.Free("stops_identified_by_sequence_only", 2) == 1
	k := c.Free("update_index", n+1) - 1 // -1: the base trip
	field := c.Free("field", 2)
	delta := []int64{1 << 8, 1 << 16, 1 << 24}[c.Free("moved_by", 3)]
	t := &gtfs.Trip{ID: gtfs.TripID{ID: "T", RouteID: "R"}}
	for i := 0; i < n; i++ {
		seq := uint32(i + 1)
		stop := fmt.Sprintf("S%d", i)
		at := time.Unix(int64(1700000000+60*i), 0).UTC()
		dt := time.Unix(int64(1700000030+60*i), 0).UTC()
		u := gtfs.StopTimeUpdate{StopSequence: &seq, StopID: &stop, Arrival: &gtfs.StopTimeEvent{Time: &at}, Departure: &gtfs.StopTimeEvent{Time: &dt}}
		if sequenceOnly {
			u.StopID = nil
		}
		if i == k {
			if field == 0 {
				v := at.Add(time.Duration(delta) * time.Second)
				u.Arrival = &gtfs.StopTimeEvent{Time: &v}
			} else {
				v := dt.Add(time.Duration(delta) * time.Second)
				u.Departure = &gtfs.StopTimeEvent{Time: &v}
			}
		}
		t.StopTimeUpdates = append(t.StopTimeUpdates, u)
	}
	key := tripKey(t)
	c.Input(hash64(key), k >= 0, func() string {
		return fmt.Sprintf("trip with %d updates (by sequence only: %v), update %d field %d moved by %d s", n, sequenceOnly, k, field, delta)
	})
	var stream string
	pan, where, text, stack := guard(func() { stream = tripStream(t) })
	if pan {
		c.Fail("panic:"+where+":"+text, "Trip.Hash panicked: %s\n%s", text, stack)
		return
	}
	c.Steps(1)
	c.Outcome(stream)
	c.Relate("trip:stream->data", stream, key)
	c.Relate("trip:data->stream", key, stream)
	c.Witness("time_differs_in_one_high_byte")
}

func c13Vehicle(withTrip bool) Harness {
	return func(c *Ctx) {
		v := &gtfs.Vehicle{}
		switch pick(c, "v.id", 1, 3) {
		case 1:
			v.ID = &gtfs.VehicleID{ID: hashStrings[pick(c, "v.id.id", 1, len(hashStrings))], Label: hashStrings[pick(c, "v.id.label", 2, len(hashStrings))], LicensePlate: hashStrings[pick(c, "v.id.plate", 0, len(hashStrings))]}
		case 2:
			v.ID = &gtfs.VehicleID{}
		}
		tb := 0
		if withTrip {
			tb = 1
		}
		if pick(c, "v.trip", tb, 2) == 1 {
			v.Trip = genTrip(c, "t.", tripBases["mixed"])
		}
		f32 := func(label string, base int) *float32 {
			switch pick(c, label, base, 5) {
			case 1:
				x := float32(0)
				return &x
			case 2:
				x := float32(-73.5)
				return &x
			case 3: // as a bearing the same direction as 0, as data another value
				x := float32(360)
				return &x
			case 4: // -73.5 + 360
				x := float32(286.5)
				return &x
			}
			return nil
		}
		if pick(c, "v.pos", 1, 2) == 1 {
			p := &gtfs.Position{Latitude: f32("v.lat", 2), Longitude: f32("v.lon", 1), Bearing: f32("v.bearing", 0), Speed: f32("v.speed", 0)}
			switch pick(c, "v.odo", 0, 6) {
			case 1:
				x := float64(0)
				p.Odometer = &x
			case 2:
				x := float64(1234.5)
				p.Odometer = &x
			case 3: // 3, 4: distinct float64 values that are the same float32
				x := float64(20000000)
				p.Odometer = &x
			case 4:
				x := float64(20000001)
				p.Odometer = &x
			case 5:
				x := float64(1234.5000001)
				p.Odometer = &x
			}
			v.Position = p
		}
		u32 := func(label string, base int) *uint32 {
			switch pick(c, label, base, 5) {
			case 1:
				x := uint32(0)
				return &x
			case 2:
				x := uint32(9)
				return &x
			case 3: // equal to 9 in the low 16 bits / low 8 bits
				x := uint32(9 + 65536)
				return &x
			case 4:
				x := uint32(9 + 256)
				return &x
			}
			return nil
		}
		v.CurrentStopSequence = u32("v.css", 2)
		v.StopID = strPtrAlt(pick(c, "v.stop", 2, len(hashStrings)+1))
		if s := pick(c, "v.status", 0, 4); s > 0 {
			x := gtfs.CurrentStatus(s - 1)
			v.CurrentStatus = &x
		}
		switch pick(c, "v.ts", 0, 3) {
		case 1:
			x := time.Unix(0, 0).UTC()
			v.Timestamp = &x
		case 2:
			x := time.Unix(1700000000, 0).UTC()
			v.Timestamp = &x
		}
		v.CongestionLevel = gtfs.CongestionLevel(pick(c, "v.cong", 0, 5))
		if s := pick(c, "v.occ", 0, 4); s > 0 {
			x := gtfs.OccupancyStatus(s - 1)
			v.OccupancyStatus = &x
		}
		v.OccupancyPercentage = u32("v.occp", 0)

		key := vehicleKey(v)
		var stream string
		var variants [5]string
		pan, where, text, stack := guard(func() {
			stream = vehicleStream(v)
			variants[0] = vehicleStream(v)
			variants[1] = vehicleStream(cloneVehicle(v, nil))
			variants[2] = vehicleStream(cloneVehicle(v, zoneNY))
			f := cloneVehicle(v, nil)
			f.IsEntityInMessage = !v.IsEntityInMessage
			if f.Trip != nil {
				f.Trip.IsEntityInMessage = !f.Trip.IsEntityInMessage
			}
			variants[3] = vehicleStream(f)
			g := cloneVehicle(v, nil)
			if g.Trip != nil {
				g.Trip.Vehicle = g
			}
			variants[4] = vehicleStream(g)
		})
		c.Input(hash64(key), true, func() string { return key })
		if pan {
			c.Fail("panic:"+where+":"+text, "Vehicle.Hash panicked: %s\n%s", text, stack)
			return
		}
		c.Steps(6)
		names := []string{"hashed-twice", "deep-copy", "other-zone", "in-message-flag", "trip-backref"}
		for i, x := range variants {
			if x != stream {
				c.Fail("vehicle-hash-depends-on:"+names[i], "hash input differs for %s of %s", names[i], key)
			}
		}
		c.Outcome(stream)
		c.Relate("vehicle:stream->data", stream, key)
		c.Relate("vehicle:data->stream", key, stream)
		if v.Trip != nil {
			c.Witness("vehicle_with_trip")
		}
	}
}

func init() {
	register(&Check{
		ID:    "C13",
		Level: "model_checking",
		Rule: "trips of 17 / 33 / 65 updates in which one arrival or departure time of one update (every index) is moved by 2^8, 2^16 or 2^24 s; trips with 1..1025 stop time updates differing in one place (last update's time / stop / departure, a middle update, one update fewer, first and last swapped, a time moved by 256 s or 65536 s; stops identified by id or by sequence only); all trips/vehicles within k deviations (quick k<=2, thorough k<=3: every value is kept for the cross-execution relation, more does not fit the memory of the machine) of the bases {empty, full, mixed} x field alphabets (long twins of 33 / 257 / 4097 bytes differing in the last byte; adjacent strings over {'',a,ab,b, a NUL b, b NUL b, 'a,b', 0x01 a}, nil/zero/non-zero optionals, numeric twins that agree in their low 8/16/32 bits or as float32, 0-3 updates with index-dependent defaults); " +
			"non-trivial = distinct data keys with an id or at least one update; oracle = global bijection hash-input-stream <-> data key plus per-value invariance under copy/zone/flag/back-reference",
		Assumptions: []string{"the hash input is the concatenation of the byte slices written to the hash.Hash", "instants have whole-second resolution (as produced by the parser)"},
		Scenarios: func(tier string) []*Scenario {
			k, kv := 2, 2
			if tier == "thorough" {
				k, kv = 3, 3 // (every value is kept for the cross-execution relations: 4 and more deviations need more memory than the machine has)
			}
			return []*Scenario{
				{Name: "trip/empty", Bound: k, Run: c13Trip("empty")},
				{Name: "trip/full", Bound: k, Run: c13Trip("full")},
				{Name: "trip/mixed", Bound: k, Run: c13Trip("mixed")},
				{Name: "trip/many-updates", Bound: -1, Run: c13ManyUpdates},
				{Name: "trip/high-bytes", Bound: -1, Run: c13HighBytes},
				{Name: "vehicle/plain", Bound: kv, Run: c13Vehicle(false)},
				{Name: "vehicle/with-trip", Bound: kv, Run: c13Vehicle(true)},
			}
		},
	})
}
