//go:build race

package main

import "runtime"

const raceEnabled = true

func raceErrors() int { return runtime.RaceErrors() }
