module verif/mc

go 1.18

require (
	github.com/jamespfennell/gtfs v0.0.0
	google.golang.org/protobuf v1.27.1
)

require golang.org/x/text v0.9.0 // indirect

replace github.com/jamespfennell/gtfs => /repo
