package main

// --selftest: are the oracles' dumps sensitive to every surfaced field? For a rich static
// result, a rich realtime result and a journal, every leaf value reachable through exported
// fields (pointers, slices) is changed, one at a time, on a fresh copy of the result, and the
// dump must change. A leaf whose change is invisible to the dump is a field no oracle judges.

import (
	"fmt"
	"reflect"
	"sort"
	"strings"
	"time"

	"github.com/jamespfennell/gtfs"
	"github.com/jamespfennell/gtfs/journal"
)

// leafPaths enumerates the paths of all leaves reachable from v (pointers followed once per address).
func leafPaths(v reflect.Value, path string, seen map[uintptr]bool, out *[]string) {
	switch v.Kind() {
	case reflect.Ptr:
		if v.IsNil() {
			*out = append(*out, path+"(nil)")
			return
		}
		if seen[v.Pointer()] {
			return
		}
		seen[v.Pointer()] = true
		leafPaths(v.Elem(), path+"*", seen, out)
	case reflect.Struct:
		if v.Type() == timeType {
			*out = append(*out, path)
			return
		}
		for i := 0; i < v.NumField(); i++ {
			if v.Type().Field(i).PkgPath == "" {
				leafPaths(v.Field(i), path+"."+v.Type().Field(i).Name, seen, out)
			}
		}
	case reflect.Slice:
		for i := 0; i < v.Len(); i++ {
			leafPaths(v.Index(i), fmt.Sprintf("%s[%d]", path, i), seen, out)
		}
	case reflect.Interface, reflect.Map, reflect.Func, reflect.Chan:
	default:
		*out = append(*out, path)
	}
}

// mutateAt changes the leaf at the given path; false if the path cannot be changed.
func mutateAt(root reflect.Value, path string) bool {
	v := root
	rest := path
	for rest != "" {
		switch {
		case strings.HasPrefix(rest, "*"):
			v = v.Elem()
			rest = rest[1:]
		case strings.HasPrefix(rest, "(nil)"):
			if v.Kind() != reflect.Ptr || !v.CanSet() {
				return false
			}
			v.Set(reflect.New(v.Type().Elem())) // nil -> pointer to a zero value
			return true
		case strings.HasPrefix(rest, "."):
			rest = rest[1:]
			j := strings.IndexAny(rest, ".[*(")
			name := rest
			if j >= 0 {
				name = rest[:j]
			}
			v = v.FieldByName(name)
			rest = rest[len(name):]
		case strings.HasPrefix(rest, "["):
			j := strings.Index(rest, "]")
			var idx int
			fmt.Sscanf(rest[1:j], "%d", &idx)
			v = v.Index(idx)
			rest = rest[j+1:]
		default:
			return false
		}
	}
	if !v.CanSet() {
		return false
	}
	switch v.Kind() {
	case reflect.String:
		v.SetString(v.String() + "~changed")
	case reflect.Int, reflect.Int8, reflect.Int16, reflect.Int32, reflect.Int64:
		v.SetInt(v.Int() + 1)
	case reflect.Uint, reflect.Uint8, reflect.Uint16, reflect.Uint32, reflect.Uint64:
		v.SetUint(v.Uint() + 1)
	case reflect.Float32, reflect.Float64:
		v.SetFloat(v.Float() + 0.5)
	case reflect.Bool:
		v.SetBool(!v.Bool())
	case reflect.Struct:
		if v.Type() == timeType {
			v.Set(reflect.ValueOf(v.Interface().(time.Time).Add(time.Nanosecond)))
			return true
		}
		return false
	default:
		return false
	}
	return true
}

func selftestOne(name string, build func() interface{}, dump func(interface{}) string) int {
	base := build()
	var paths []string
	leafPaths(reflect.ValueOf(base), "", map[uintptr]bool{}, &paths)
	baseDump := dump(base)
	var blind []string
	n := 0
	for _, p := range paths {
		x := build()
		if !mutateAt(reflect.ValueOf(x), p) {
			continue
		}
		if strings.Contains(p, "].Vehicle*") || strings.Contains(p, "].Trip*") {
			continue // what a link leads to is compared with the top-level entry by C04, not by the dump
		}
		n++
		if dump(x) == baseDump {
			blind = append(blind, p)
		}
	}
	sort.Strings(blind)
	fmt.Fprintf(realStdout, "selftest %s: %d leaves changed one at a time, %d invisible to the dump\n", name, n, len(blind))
	for _, p := range blind {
		fmt.Fprintf(realStdout, "  INVISIBLE %s%s\n", name, p)
	}
	return len(blind)
}

func selftestMain() int {
	bad := 0
	zip := c18RejectsArchive()
	bad += selftestOne("Static", func() interface{} {
		r, err := gtfs.ParseStatic(zip, gtfs.ParseStaticOptions{})
		if err != nil {
			fatalf("selftest: %v", err)
		}
		return r
	}, func(x interface{}) string { return dumpStatic(x.(*gtfs.Static), staticDumpOpts{}) })
	feed := c06Feeds()[7]
	bad += selftestOne("Realtime", func() interface{} {
		r, err := gtfs.ParseRealtime(feed, &gtfs.ParseRealtimeOptions{Timezone: zoneNY})
		if err != nil {
			fatalf("selftest: %v", err)
		}
		return r
	}, func(x interface{}) string { return dumpRealtime(x.(*gtfs.Realtime), rtDumpOpts{links: true}) })
	bad += selftestOne("Journal", func() interface{} {
		r, err := gtfs.ParseRealtime(c19Good()[1], c19Opts())
		if err != nil {
			fatalf("selftest: %v", err)
		}
		return buildJournal([]*gtfs.Realtime{r, deriveFeed(r, 2)}, farPast, farFuture)
	}, func(x interface{}) string { return dumpJournal(x.(*journal.Journal)) })
	return bad
}
