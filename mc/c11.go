package main

// C11 - services merge calendar.txt and calendar_dates.txt.
//
// Enumerated (full product): calendar.txt in {s1, empty, file absent, s1+s2, s1 twice with
// different flags and ranges}; 0..2 exception rows (thorough: 0..3), each (service in
// {s1,s2,s3}) x (date in {before, start of, inside, end of, after the s1 range, unparseable})
// x (type in {1,2,3}); first agency's zone in {America/New_York, Europe/London, unknown};
// all map rotations of the loop that builds Static.Services.
// Oracle: reference merge (refStatic) written from the statement; Services compared as a set.
// Where the statement is silent, every reading is accepted: with two calendar rows for one id
// either row may win; an exception row of an unsupported type may or may not widen the range.

import (
	"fmt"
	"strings"
	"time"

	"github.com/jamespfennell/gtfs"
)

var c11Dates = []string{"20240201", "20240205", "20240229", "20240301", "20240331", "2024-01-10", ""}
var c11DateNames = []string{"before", "start", "inside", "end", "after", "unparseable", "blank"}

// c11RangeSets: the s1 range and the five probe dates; the second set sits on the days on
// which zones east of UTC switch daylight saving time (the switch precedes UTC midnight there)
var c11RangeSets = [][]string{
	{"20240201", "20240205", "20240229", "20240301", "20240331"}, // the leap day lies inside the range
	{"20240407", "20240409", "20240601", "20241006", "20241007"},
	// far from the present: before 1678 and after 2262 an instant no longer fits int64 nanoseconds
	// (open-ended calendars are commonly written with end_date 99991231)
	{"00010102", "16770101", "22620412", "99991230", "99991231"},
	{"20240407", "20240601", "20240908", "20240909", "20241001"}, // America/Santiago: back on 7 April, forward at 00:00 on 8 September 2024
	{"20240301", "20240310", "20240311", "20241103", "20241104"}, // America/Havana: forward at 00:00 on 10 March 2024
}

// c11ZoneDateCombos: every zone with the January dates; the southern switch days and the far
// dates with three zones each. "Japan" and "EST5EDT" are tz database names without a slash.
var c11ZoneDateCombos = []struct {
	zone string
	set  int
}{
	{"America/New_York", 0}, {"Europe/London", 0}, {"Mars/Phobos", 0}, {"Australia/Sydney", 0}, {"Australia/Lord_Howe", 0}, {"Japan", 0}, {"EST5EDT", 0},
	{"America/New_York", 1}, {"Australia/Sydney", 1}, {"Australia/Lord_Howe", 1},
	{"America/New_York", 2}, {"Australia/Sydney", 2}, {"Japan", 2},
	// a zone that springs forward at local midnight, with its switch days (the day then starts at 01:00)
	{"America/Santiago", 3}, {"America/Havana", 4},
}

func c11Harness(maxRows int) Harness {
	return func(c *Ctx) {
		m := genStaticFeedN(c, false, baseCounts, nil, nil)
		comboIdx := c.Free("first_agency_zone_and_date_set", len(c11ZoneDateCombos))
		combo := c11ZoneDateCombos[comboIdx]
		zone := combo.zone
		// the unparseable date: not of the form YYYYMMDD, or (every other combination) of that form but naming a
		// day its month does not have
		unparseable := []string{"2024-01-10", "20230229", "20240431"}[comboIdx%3]
		dates := append(append([]string{}, c11RangeSets[combo.set]...), unparseable, "")
		m.t("agency.txt").set(0, "agency_timezone", zone)
		cal := m.t("calendar.txt")
		cd := m.t("calendar_dates.txt")
		s1, _ := cal.get(0, "service_id")
		s2, _ := cal.get(1, "service_id")
		// service ids may begin with '#' (a comment character in other CSV dialects, an ordinary
		// character in GTFS): the second calendar service and the exception-only one do
		s3 := "#X1"
		for _, f := range []string{"calendar.txt", "trips.txt"} {
			t := m.t(f)
			for r := range t.Rows {
				if v, _ := t.get(r, "service_id"); v == s2 {
					t.set(r, "service_id", "#"+s2)
				}
			}
		}
		s2 = "#" + s2
		svc := []string{s1, s2, s3}
		cal.set(0, "start_date", dates[1])
		cal.set(0, "end_date", dates[3])
		// the January dates get every calendar configuration and the whole date alphabet; the DST-switch
		// and far-away date sets the three configurations with a range and the five well-formed dates
		calOpt := 0
		nDates := len(c11Dates)
		if combo.set == 0 {
			calOpt = c.Free("calendar", 6)
		} else {
			calOpt = []int{0, 4, 5}[c.Free("calendar", 3)]
			nDates = 5
		}
		dup := false
		switch calOpt {
		case 0:
			cal.Rows = cal.Rows[:1]
		case 1:
			cal.Rows = nil
		case 2:
			var keep []*table
			for _, t := range m.Tables {
				if t.File != "calendar.txt" {
					keep = append(keep, t)
				}
			}
			m.Tables = keep
		case 3:
		case 4:
			cal.set(1, "service_id", s1) // same id, different flags and range (row 1 keeps its own cells)
			dup = true
		case 5:
			// a one-day service: start_date == end_date (the probe dates "inside" and "end" then lie outside)
			cal.Rows = cal.Rows[:1]
			cal.set(0, "end_date", dates[1])
		}
		nRows := c.Free("exception_rows", maxRows+1)
		proto := append([]string{}, cd.Rows[0]...)
		cd.Rows = nil
		var desc []string
		outside, both := false, false
		for r := 0; r < nRows; r++ {
			sv := c.Free(fmt.Sprintf("ex[%d].service", r), 3)
			d := c.Free(fmt.Sprintf("ex[%d].date", r), nDates)
			ty := c.Free(fmt.Sprintf("ex[%d].type", r), 3)
			row := append([]string{}, proto...)
			cd.Rows = append(cd.Rows, row)
			cd.set(r, "service_id", svc[sv])
			cd.set(r, "date", dates[d])
			cd.set(r, "exception_type", fmt.Sprint(ty+1))
			desc = append(desc, fmt.Sprintf("(%s,%s,%d)", svc[sv], c11DateNames[d], ty+1))
			if sv == 0 && (d == 0 || d == 4) && ty < 2 && (calOpt == 0 || calOpt == 3 || calOpt == 4 || calOpt == 5) {
				outside = true
			}
			if sv == 0 && d < 5 && ty < 2 && (calOpt == 0 || calOpt == 3 || calOpt == 4) {
				both = true
			}
		}
		if nRows == 0 && c.Free("calendar_dates_file_absent", 2) == 1 {
			var keep []*table
			for _, t := range m.Tables {
				if t.File != "calendar_dates.txt" {
					keep = append(keep, t)
				}
			}
			m.Tables = keep
		}
		pres := presentation{}
		if combo.zone == "Japan" && combo.set == 0 && c.Free("every_file_begins_with_an_unknown_column_of_blank_cells", 2) == 1 {
			pres.ExtraCol = 6 // a row is its cells, wherever the blank ones are
		}
		b := renderFeed(m, pres)
		key := fmt.Sprintf("zone=%s calendar=%d exceptions=%s blankFirstColumn=%v", zone, calOpt, strings.Join(desc, ""), pres.ExtraCol == 6)
		c.Input(hash64(string(b)), nRows > 0, func() string { return key + "\n" + m.text() })
		c.SetMapRotation(c.Free("map_rotation", 3))
		r, err, ok := parseStaticGuarded(c, b, gtfs.ParseStaticOptions{})
		c.SetMapMode(mapFixed)
		if !ok {
			return
		}
		c.Steps(2 + nRows)
		if err != nil {
			c.Fail("valid-feed-rejected", "%v", err)
			return
		}
		o := staticDumpOpts{sortServices: true}
		gd := dumpStatic(r, o)
		c.Outcome(gd)
		// every admissible reading of the statement
		var models []*feedModel
		models = append(models, m)
		if dup {
			first := m.clone()
			ct := first.t("calendar.txt")
			ct.Rows = ct.Rows[:1]
			models = append(models, first)
		}
		var firstWant string
		for _, mm := range models {
			for _, t3 := range []bool{false, true} {
				wd := dumpStatic(refStatic(mm, refStaticOpts{type3Extends: t3}), o)
				if firstWant == "" {
					firstWant = wd
				}
				if wd == gd {
					goto invariants
				}
			}
		}
		c.Fail("services:"+firstDiffKind(firstWant, gd)+"."+firstDiffField(firstWant, gd), "services differ from the reference merge (%s)\n%s", key, diffLines(firstWant, gd))
	invariants:
		// stated invariants, checked directly on the result
		seen := map[string]bool{}
		for i := range r.Services {
			sv := &r.Services[i]
			if seen[sv.Id] {
				c.Fail("duplicate-service", "two services with id %q", sv.Id)
			}
			seen[sv.Id] = true
			for _, d := range append(append([]time.Time{}, sv.AddedDates...), sv.RemovedDates...) {
				if d.Before(sv.StartDate) || sv.EndDate.Before(d) {
					c.Fail("exception-outside-range", "service %q: exception date %s outside [%s, %s]", sv.Id, fmtTime(d), fmtTime(sv.StartDate), fmtTime(sv.EndDate))
				}
			}
		}
		if outside {
			c.Witness("exception_outside_calendar_range")
		}
		if both {
			c.Witness("service_in_both_files")
		}
	}
}

func init() {
	register(&Check{
		ID:    "C11",
		Level: "model_checking",
		Rule: "full product: calendar.txt {s1, empty, absent, s1+s2, s1 twice, s1 as a one-day service}; service ids beginning with #; x 0..2 (thorough 0..3) exception rows over 3 services x 7 dates (before/start/inside/end/after the s1 range, unparseable - 2024-01-10, 20230229 or 20240431 -, blank) x 3 exception types x 15 (zone of the first agency, date set) combinations: New_York, London, unknown, Sydney, Lord_Howe, Japan, EST5EDT (names without a slash) with dates around the leap day 2024-02-29; New_York, Sydney, Lord_Howe with the southern DST switch days; New_York, Sydney, Japan with dates in the years 1, 1677, 2262 and 9999; America/Santiago and America/Havana (daylight saving time starts at local midnight) with their switch days x map iteration starts 0, 1, 2 at every library range; the Japan / January combination also with an unknown first column whose cells are blank in every file; " +
			"non-trivial = distinct archives with at least one exception row; oracle = reference merge (all admissible readings) + direct invariants (unique ids, start <= exception <= end)",
		Assumptions: []string{"two calendar rows with one id: either row may win", "an exception row with an unsupported type creates nothing, adds no date, and may or may not widen an existing range"},
		Scenarios: func(tier string) []*Scenario {
			if tier == "thorough" {
				return []*Scenario{{Name: "calendar-x-3-exceptions", Bound: -1, Run: c11Harness(3)}}
			}
			return []*Scenario{{Name: "calendar-x-2-exceptions", Bound: -1, Run: c11Harness(2)}}
		},
	})
}
