package main

// C16 - NYCT trips extension derives standard fields and is transparent otherwise.
//
// (a) origin times: ALL 10^6 six-digit prefixes of an NYCT-format trip id; 000000-599999
//     against "floor(hundredths of a minute * 0.6) seconds", 600000-999999 for crash freedom.
// (b) full product: entity kind {trip update, vehicle position} x is_assigned {-,false,true}
//     x direction {-,N,E,S,W} x train id {-,x} x pre-existing vehicle descriptor {-,yes} x
//     trip id {NYCT format, other} x per-stop tracks {no ext, scheduled, actual, both, neither, actual present but empty, scheduled empty}
//     x first-stop times {none, dep <,=,> ts, arr only <,=,>, dep 0 with arr, dep without time + arr >,< ts, events without any time} x stop-time count
//     {0,1,2} x the 4 option combinations.
// (b') two or three assigned trips sharing one train id (trip updates and a vehicle position, both orders, 4 options); (c) transparency: feeds without NYCT data - route in {M, J, -} x two stop ids over a
//     12-value alphabet x options, and the rich C02 feed within 1 deviation x options - parse
//     exactly as with no extension, modulo an independently written N<->S swap; involution:
//     P_fix(swap(F)) == P_preserve(F).
// Oracle: the statement's rules as reference transformation of the message followed by the
// extension-free reference interpretation.

import (
	"fmt"
	"regexp"
	"strings"

	"github.com/jamespfennell/gtfs"
	"github.com/jamespfennell/gtfs/extensions/nycttrips"
	gtfsrt "github.com/jamespfennell/gtfs/proto"
	"google.golang.org/protobuf/proto"
)

var nyctOptCombos = []nycttrips.ExtensionOpts{
	{}, {FilterStaleUnassignedTrips: true}, {PreserveMTrainPlatformsInBushwick: true}, {FilterStaleUnassignedTrips: true, PreserveMTrainPlatformsInBushwick: true},
}

func nyctOptName(o nycttrips.ExtensionOpts) string {
	return fmt.Sprintf("{filterStale=%v preserveM=%v}", o.FilterStaleUnassignedTrips, o.PreserveMTrainPlatformsInBushwick)
}

func c16Origin(c *Ctx) {
	hi := c.Free("prefix_thousands", 1000)
	lo := c.Free("prefix_units", 1000)
	n := hi*1000 + lo
	// five forms of NYCT trip ids, assigned by the prefix modulo 5: two-character routes are padded with ONE dot
	form := n % 5
	id := fmt.Sprintf([]string{"%06d_6..N01R", "%06d_GS.N01R", "%06d_SI.N03R", "%06d_7X.S", "%06d_A..S55R"}[form], n)
	td := &gtfsrt.TripDescriptor{TripId: &id, RouteId: sp([]string{"6", "GS", "SI", "7X", "A"}[form])}
	proto.SetExtension(td, gtfsrt.E_NyctTripDescriptor, &gtfsrt.NyctTripDescriptor{Direction: gtfsrt.NyctTripDescriptor_NORTH.Enum()})
	switch n % 7 {
	case 3: // the descriptor carries a start time of its own (newer feeds do): the origin time of the id still decides
		td.StartTime = sp("00:00:07")
	case 5:
		td.StartTime = sp("")
	}
	m := newFeed(cp(&tsAlphabet[0]))
	m.Entity = []*gtfsrt.FeedEntity{{Id: sp("e"), TripUpdate: &gtfsrt.TripUpdate{Trip: td}}}
	b := marshalFeed(m)
	c.Input(uint64(n), n < 600000, func() string { return "trip_id=" + id })
	r, err, ok := parseRT(c, b, &gtfs.ParseRealtimeOptions{Extension: nycttrips.Extension(nycttrips.ExtensionOpts{})})
	if !ok {
		return
	}
	c.Steps(1)
	if err != nil {
		c.Fail("valid-message-rejected", "%v", err)
		return
	}
	if n >= 600000 {
		return
	}
	if len(r.Trips) != 1 {
		c.Fail("origin-time:trip-count", "%d trips", len(r.Trips))
		return
	}
	// hundredths of a minute after midnight, truncated to whole seconds: n * 0.6 = n*6/10
	want := int64(n) * 6 / 10
	t := r.Trips[0].ID
	if !t.HasStartTime || int64(t.StartTime.Seconds()) != want || t.StartTime.Nanoseconds()%1e9 != 0 {
		c.Fail("origin-time:start-time", "trip id %s: start time %v (has=%v), want %d s", id, t.StartTime, t.HasStartTime, want)
	}
	c.Outcome(fmt.Sprint(t.StartTime))
}

var nyctIDRegex = regexp.MustCompile(`^[0-9]{6}_[0-9A-Za-z]{1,2}..[SN][0-9A-Za-z]*$`)

var c16TrainIDs = []string{"", "0L 1234 8AV/RPY", " 06 0123+ PEL/BBR\t"}

type c16Case struct {
	kind, assigned, direction, trainID, preVehicle, idKind, tracks, firstTimes, nStops int
	opts                                                                               nycttrips.ExtensionOpts
	msg                                                                                *gtfsrt.FeedMessage
	ts                                                                                 uint64
	staleAsserted                                                                      bool
	header                                                                             int // 0 header timestamp set, 1 absent, 2 present with value 0
}

func genC16(c *Ctx) *c16Case {
	k := &c16Case{}
	k.kind = c.Free("entity_kind", 2)
	k.assigned = c.Free("is_assigned", 3)
	k.direction = c.Free("direction", 5)
	k.trainID = c.Free("train_id", 3) // absent, a usual one, one with leading and trailing blanks (the id is that text, verbatim)
	k.preVehicle = c.Free("existing_vehicle_descriptor", 2)
	k.idKind = c.Free("trip_id_kind", 2)
	k.opts = nyctOptCombos[c.Free("options", 4)]
	k.ts = 1700000000
	id := "123450_L..N08X"
	if k.idKind == 1 {
		id = "plain-trip-1"
	}
	td := &gtfsrt.TripDescriptor{TripId: &id, RouteId: sp("L")}
	n := &gtfsrt.NyctTripDescriptor{}
	switch k.assigned {
	case 1:
		f := false
		n.IsAssigned = &f
	case 2:
		t := true
		n.IsAssigned = &t
	}
	if k.direction > 0 {
		n.Direction = gtfsrt.NyctTripDescriptor_Direction(k.direction).Enum()
	}
	if k.trainID >= 1 {
		n.TrainId = sp(c16TrainIDs[k.trainID])
	}
	proto.SetExtension(td, gtfsrt.E_NyctTripDescriptor, n)
	var pre *gtfsrt.VehicleDescriptor
	if k.preVehicle == 1 {
		pre = &gtfsrt.VehicleDescriptor{Id: sp("orig-vehicle"), Label: sp("orig-label")}
	}
	m := newFeed(&k.ts)
	// the header timestamp may be absent or 0: then no stop time is "earlier than the feed
	// timestamp", while a missing first stop (time) is still missing
	k.header = c.Free("header_timestamp", 3)
	switch k.header {
	case 1:
		m.Header.Timestamp = nil
	case 2:
		m.Header.Timestamp = u64p(0)
	}
	if k.kind == 1 {
		m.Entity = []*gtfsrt.FeedEntity{{Id: sp("e"), Vehicle: &gtfsrt.VehiclePosition{Trip: td, Vehicle: pre, StopId: sp("L08N")}}}
		k.msg = m
		return k
	}
	k.tracks = c.Free("tracks", 9)
	if k.tracks == 3 || k.tracks == 6 {
		// a cancelled trip (coupled to two of the track options rather than a dimension of its own): the stale
		// rule does not look at the schedule relationship
		td.ScheduleRelationship = gtfsrt.TripDescriptor_CANCELED.Enum()
	}
	k.firstTimes = c.Free("first_stop_times", 16)
	k.nStops = c.Free("stop_time_updates", 3)
	tu := &gtfsrt.TripUpdate{Trip: td, Vehicle: pre}
	if k.header == 0 { // (varied only next to a header that carries a timestamp)
		switch c.Free("trip_update_timestamp", 3) { // the stale rule compares with the FEED timestamp
		case 1:
			tu.Timestamp = u64p(k.ts - 1000)
		case 2:
			tu.Timestamp = u64p(k.ts + 1000)
		}
	}
	for j := 0; j < k.nStops; j++ {
		u := &gtfsrt.TripUpdate_StopTimeUpdate{StopId: sp(fmt.Sprintf("L0%dN", j+1))}
		if j == 0 {
			ts := int64(k.ts)
			switch k.firstTimes {
			case 1:
				u.Departure = &gtfsrt.TripUpdate_StopTimeEvent{Time: cp2(ts - 1)}
			case 2:
				u.Departure = &gtfsrt.TripUpdate_StopTimeEvent{Time: cp2(ts)}
			case 3:
				u.Departure = &gtfsrt.TripUpdate_StopTimeEvent{Time: cp2(ts + 1)}
			case 4:
				u.Arrival = &gtfsrt.TripUpdate_StopTimeEvent{Time: cp2(ts - 1)}
			case 5:
				u.Arrival = &gtfsrt.TripUpdate_StopTimeEvent{Time: cp2(ts)}
			case 6:
				u.Arrival = &gtfsrt.TripUpdate_StopTimeEvent{Time: cp2(ts + 1)}
			case 7:
				u.Departure = &gtfsrt.TripUpdate_StopTimeEvent{Time: cp2(0)}
				u.Arrival = &gtfsrt.TripUpdate_StopTimeEvent{Time: cp2(ts + 1)}
			case 8: // a departure event without a time (delay only): the departure TIME is missing, so the arrival counts
				u.Departure = &gtfsrt.TripUpdate_StopTimeEvent{Delay: cp(new(int32))}
				u.Arrival = &gtfsrt.TripUpdate_StopTimeEvent{Time: cp2(ts + 1)}
			case 9:
				u.Departure = &gtfsrt.TripUpdate_StopTimeEvent{Delay: cp(new(int32))}
				u.Arrival = &gtfsrt.TripUpdate_StopTimeEvent{Time: cp2(ts - 1)}
			case 11: // a negative departure time is a time before 1970: earlier than any feed timestamp
				u.Departure = &gtfsrt.TripUpdate_StopTimeEvent{Time: cp2(-1)}
				u.Arrival = &gtfsrt.TripUpdate_StopTimeEvent{Time: cp2(ts + 100)}
			case 12:
				u.Arrival = &gtfsrt.TripUpdate_StopTimeEvent{Time: cp2(-3600)}
			case 13: // a train dwelling at its origin: arrived before the feed was made, leaves after - the departure decides
				u.Arrival = &gtfsrt.TripUpdate_StopTimeEvent{Time: cp2(ts - 100)}
				u.Departure = &gtfsrt.TripUpdate_StopTimeEvent{Time: cp2(ts + 100)}
			case 14:
				u.Arrival = &gtfsrt.TripUpdate_StopTimeEvent{Time: cp2(ts - 100)}
				u.Departure = &gtfsrt.TripUpdate_StopTimeEvent{Time: cp2(ts)}
			case 15: // the departure lies before the arrival, and before the feed
				u.Arrival = &gtfsrt.TripUpdate_StopTimeEvent{Time: cp2(ts + 100)}
				u.Departure = &gtfsrt.TripUpdate_StopTimeEvent{Time: cp2(ts - 1)}
			case 10: // events present, no time anywhere
				u.Departure = &gtfsrt.TripUpdate_StopTimeEvent{Delay: cp(new(int32))}
				u.Arrival = &gtfsrt.TripUpdate_StopTimeEvent{Uncertainty: cp(new(int32))}
			}
		} else {
			u.Arrival = &gtfsrt.TripUpdate_StopTimeEvent{Time: cp2(int64(k.ts) - 500)} // later stops never matter
		}
		if k.tracks == 7 && j > 0 {
			proto.SetExtension(u, gtfsrt.E_NyctStopTimeUpdate, &gtfsrt.NyctStopTimeUpdate{ActualTrack: sp(fmt.Sprintf("A%d", j))})
		}
		if k.tracks == 8 {
			x := &gtfsrt.NyctStopTimeUpdate{}
			if j > 0 {
				x.ScheduledTrack = sp(fmt.Sprintf("S%d", j))
			}
			proto.SetExtension(u, gtfsrt.E_NyctStopTimeUpdate, x)
		}
		if k.tracks > 0 && k.tracks < 7 {
			x := &gtfsrt.NyctStopTimeUpdate{}
			if k.tracks == 1 || k.tracks == 3 {
				x.ScheduledTrack = sp(fmt.Sprintf("S%d", j))
			}
			if k.tracks == 2 || k.tracks == 3 {
				x.ActualTrack = sp(fmt.Sprintf("A%d", j))
			}
			if k.tracks == 5 { // the actual track is present and empty, the scheduled one is not
				x.ScheduledTrack = sp(fmt.Sprintf("S%d", j))
				x.ActualTrack = sp("")
			}
			if k.tracks == 6 { // only a scheduled track, and it is empty
				x.ScheduledTrack = sp("")
			}
			proto.SetExtension(u, gtfsrt.E_NyctStopTimeUpdate, x)
		}
		tu.StopTimeUpdate = append(tu.StopTimeUpdate, u)
	}
	m.Entity = []*gtfsrt.FeedEntity{{Id: sp("e"), TripUpdate: tu}}
	k.msg = m
	k.staleAsserted = k.firstTimes != 7
	return k
}

func cp2(v int64) *int64 { return &v }

func (k *c16Case) String() string {
	return fmt.Sprintf("kind=%d assigned=%d direction=%d trainID=%d preVehicle=%d idKind=%d tracks=%d firstTimes=%d nStops=%d header=%d opts=%s", k.kind, k.assigned, k.direction, k.trainID, k.preVehicle, k.idKind, k.tracks, k.firstTimes, k.nStops, k.header, nyctOptName(k.opts))
}

func c16Rules(c *Ctx) {
	k := genC16(c)
	b := marshalFeed(k.msg)
	c.Input(hash64(string(b)+nyctOptName(k.opts)), true, func() string { return k.String() + "\n" + feedText(k.msg) })
	r, err, ok := parseRT(c, b, &gtfs.ParseRealtimeOptions{Extension: nycttrips.Extension(k.opts)})
	if !ok {
		return
	}
	c.Steps(1)
	if err != nil {
		c.Fail("valid-message-rejected", "%v", err)
		return
	}
	c.Outcome(dumpRealtime(r, rtDumpOpts{links: true, sortVehicles: true}))
	// stale rule
	unassigned := k.assigned != 2
	stale := false
	if k.kind == 0 && unassigned {
		switch {
		case k.nStops == 0, k.firstTimes == 0, k.firstTimes == 10:
			stale = true // first stop (time) missing
		case k.firstTimes == 11 || k.firstTimes == 12:
			stale = true // before 1970: earlier than the feed timestamp, also when the header carries none (0)
		case k.header == 0 && (k.firstTimes == 1 || k.firstTimes == 4 || k.firstTimes == 9 || k.firstTimes == 15):
			stale = true // earlier than the feed timestamp
		}
	}
	dropped := len(r.Trips) == 0
	if k.kind == 0 && (k.staleAsserted || k.nStops == 0) {
		wantDrop := stale && k.opts.FilterStaleUnassignedTrips
		if dropped != wantDrop {
			c.Fail("stale-filter", "%s: trip dropped=%v, want %v", k, dropped, wantDrop)
			return
		}
	}
	if dropped {
		c.Witness("stale_trip_dropped")
		return
	}
	if len(r.Trips) != 1 {
		c.Fail("nyct:trip-count", "%s: %d trips", k, len(r.Trips))
		return
	}
	t := &r.Trips[0]
	switch k.direction {
	case 1:
		if t.ID.DirectionID != gtfs.DirectionID_False {
			c.Fail("nyct:direction", "%s: NORTH must give direction False, got %s", k, t.ID.DirectionID)
		}
	case 3:
		if t.ID.DirectionID != gtfs.DirectionID_True {
			c.Fail("nyct:direction", "%s: SOUTH must give direction True, got %s", k, t.ID.DirectionID)
		}
	}
	if k.idKind == 0 {
		want := int64(123450) * 6 / 10
		if !t.ID.HasStartTime || int64(t.ID.StartTime.Seconds()) != want {
			c.Fail("nyct:start-time", "%s: start time %v has=%v, want %ds", k, t.ID.StartTime, t.ID.HasStartTime, want)
		}
	} else if t.ID.HasStartTime {
		c.Fail("nyct:start-time-invented", "%s: trip id is not NYCT format but a start time was derived", k)
	}
	if t.ID.ID != k.msg.Entity[0].GetTripUpdate().GetTrip().GetTripId()+k.msg.Entity[0].GetVehicle().GetTrip().GetTripId() || t.ID.RouteID != "L" {
		c.Fail("nyct:identifier-changed", "%s: trip id/route changed: %s", k, dumpTripID(t.ID))
	}
	if k.assigned == 2 && k.trainID >= 1 {
		if t.Vehicle == nil || t.Vehicle.ID == nil || t.Vehicle.ID.ID != c16TrainIDs[k.trainID] {
			c.Fail("nyct:assigned-vehicle", "%s: assigned trip must be linked to a vehicle whose id is the train id, got %v", k, dumpVehicleID(t.GetVehicle().ID))
		} else if t.Vehicle.Trip == nil || dumpTripID(t.Vehicle.Trip.ID) != dumpTripID(t.ID) {
			c.Fail("nyct:assigned-vehicle-backlink", "%s: the vehicle does not lead back to the trip", k)
		}
		c.Witness("assigned_with_train_id")
	}
	if k.assigned != 2 {
		wantV := "nil"
		if k.preVehicle == 1 {
			wantV = `{id="orig-vehicle" label="orig-label" plate=""}`
		}
		got := "nil"
		if t.Vehicle != nil {
			got = dumpVehicleID(t.Vehicle.ID)
		}
		if k.kind == 1 && k.preVehicle == 0 {
			// a position entity without descriptor is an id-less vehicle linked to its trip
			wantV = "nil"
		}
		if got != wantV {
			c.Fail("nyct:unassigned-vehicle", "%s: unassigned trip's vehicle is %s, want %s", k, got, wantV)
		}
	}
	if k.kind == 0 {
		if len(t.StopTimeUpdates) != k.nStops {
			c.Fail("nyct:stop-time-count", "%s: %d stop time updates", k, len(t.StopTimeUpdates))
			return
		}
		for j := range t.StopTimeUpdates {
			want := "nil"
			switch k.tracks {
			case 1:
				want = fmt.Sprintf("%q", fmt.Sprintf("S%d", j))
			case 2, 3:
				want = fmt.Sprintf("%q", fmt.Sprintf("A%d", j))
			case 5, 6:
				want = `""`
			case 7:
				if j > 0 {
					want = fmt.Sprintf("%q", fmt.Sprintf("A%d", j))
				}
			case 8:
				if j > 0 {
					want = fmt.Sprintf("%q", fmt.Sprintf("S%d", j))
				}
			}
			if got := fmtStrPtr(t.StopTimeUpdates[j].NyctTrack); got != want {
				c.Fail("nyct:track", "%s: stop %d track %s, want %s", k, j, got, want)
			}
			if got := fmtStrPtr(t.StopTimeUpdates[j].StopID); got != fmt.Sprintf("%q", fmt.Sprintf("L0%dN", j+1)) {
				c.Fail("nyct:stop-id-changed", "%s: stop %d id %s", k, j, got)
			}
		}
	}
}

// c16SharedTrain: two (or three) different assigned trips carry the same train id (a train's
// current trip and its next one): each of them is linked to the vehicle with that id.
func c16SharedTrain(c *Ctx) {
	n := 2 + c.Free("trips_with_the_train_id", 2)
	opts := nyctOptCombos[c.Free("options", 4)]
	kind := c.Free("second_entity_kind", 2) // the last trip comes as a trip update or as a vehicle position
	ts := uint64(1700000000)
	m := newFeed(&ts)
	train := "06 0331+ PEL/BBR"
	var ids []string
	for i := 0; i < n; i++ {
		id := fmt.Sprintf("0%d3100_6..N03R", i+1)
		ids = append(ids, id)
		td := &gtfsrt.TripDescriptor{TripId: &id, RouteId: sp("6")}
		assigned := true
		proto.SetExtension(td, gtfsrt.E_NyctTripDescriptor, &gtfsrt.NyctTripDescriptor{TrainId: &train, IsAssigned: &assigned, Direction: gtfsrt.NyctTripDescriptor_NORTH.Enum()})
		if i == n-1 && kind == 1 {
			m.Entity = append(m.Entity, &gtfsrt.FeedEntity{Id: sp(fmt.Sprintf("e%d", i)), Vehicle: &gtfsrt.VehiclePosition{Trip: td, StopId: sp("601N")}})
		} else {
			m.Entity = append(m.Entity, &gtfsrt.FeedEntity{Id: sp(fmt.Sprintf("e%d", i)), TripUpdate: &gtfsrt.TripUpdate{Trip: td,
				StopTimeUpdate: []*gtfsrt.TripUpdate_StopTimeUpdate{{StopId: sp("601N"), Departure: &gtfsrt.TripUpdate_StopTimeEvent{Time: cp2(int64(ts) + 60)}}}}})
		}
	}
	if c.Free("order_reversed", 2) == 1 {
		for i, j := 0, len(m.Entity)-1; i < j; i, j = i+1, j-1 {
			m.Entity[i], m.Entity[j] = m.Entity[j], m.Entity[i]
		}
	}
	b := marshalFeed(m)
	desc := fmt.Sprintf("%d assigned trips %v with train id %q, options %s", n, ids, train, nyctOptName(opts))
	c.Input(hash64(string(b)+nyctOptName(opts)), true, func() string { return desc + "\n" + feedText(m) })
	r, err, ok := parseRT(c, b, &gtfs.ParseRealtimeOptions{Extension: nycttrips.Extension(opts)})
	if !ok {
		return
	}
	c.Steps(n)
	if err != nil {
		c.Fail("valid-message-rejected", "%v", err)
		return
	}
	c.Outcome(dumpRealtime(r, rtDumpOpts{links: true, sortVehicles: true}))
	if len(r.Trips) != n {
		c.Fail("nyct:trip-count", "%s: %d trips", desc, len(r.Trips))
		return
	}
	for i := range r.Trips {
		t := &r.Trips[i]
		if t.Vehicle == nil || t.Vehicle.ID == nil || t.Vehicle.ID.ID != train {
			c.Fail("nyct:assigned-vehicle", "%s: assigned trip %s is linked to vehicle %s, want the vehicle whose id is the train id", desc, t.ID.ID, dumpVehicleID(t.GetVehicle().ID))
		}
	}
	c.Witness("train_id_shared_by_assigned_trips")
}

var mStopAlphabet = []string{"M11N", "M11S", "M16S", "M18N", "M19N", "M15N", "M11", "M11NN", "A11N", "", "<absent>", "M11X", "M14S", "M12N", "M13S"}

// refSwap is the documented swap: N<->S at M11-M14, M16, M18 (4-character platform ids).
func refSwap(id string) string {
	if len(id) != 4 {
		return id
	}
	switch id[:3] {
	case "M11", "M12", "M13", "M14", "M16", "M18":
	default:
		return id
	}
	switch id[3] {
	case 'N':
		return id[:3] + "S"
	case 'S':
		return id[:3] + "N"
	}
	return id
}

func swapFeed(m *gtfsrt.FeedMessage) *gtfsrt.FeedMessage {
	n := proto.Clone(m).(*gtfsrt.FeedMessage)
	for _, e := range n.Entity {
		if tu := e.TripUpdate; tu != nil && tu.GetTrip().GetRouteId() == "M" {
			for _, u := range tu.StopTimeUpdate {
				if u.StopId != nil {
					s := refSwap(*u.StopId)
					u.StopId = &s
				}
			}
		}
	}
	return n
}

func c16TransparencyCheck(c *Ctx, m *gtfsrt.FeedMessage, opts nycttrips.ExtensionOpts, tzo tzOpt, desc string) {
	b := marshalFeed(m)
	c.Input(hash64(string(b)+nyctOptName(opts)+tzo.name), true, func() string { return desc + " opts=" + nyctOptName(opts) + "\n" + feedText(m) })
	withExt, err, ok := parseRT(c, b, &gtfs.ParseRealtimeOptions{Timezone: tzo.loc, Extension: nycttrips.Extension(opts)})
	if !ok {
		return
	}
	if err != nil {
		c.Fail("valid-message-rejected", "%v", err)
		return
	}
	// expected: the plain parse of the (swapped, unless preserved) feed
	exp := m
	if !opts.PreserveMTrainPlatformsInBushwick {
		exp = swapFeed(m)
	}
	plain, err, ok := parseRT(c, marshalFeed(exp), &gtfs.ParseRealtimeOptions{Timezone: tzo.loc})
	if !ok || err != nil {
		harnessBug("plain parse failed: %v", err)
	}
	c.Steps(3)
	o := rtDumpOpts{links: true, sortVehicles: true}
	wd, gd := dumpRealtime(plain, o), dumpRealtime(withExt, o)
	c.Outcome(gd)
	if wd != gd {
		c.Fail("not-transparent:"+firstDiffKind(wd, gd), "a feed without NYCT data parses differently with the extension %s (modulo the documented M-train swap)\n%s", nyctOptName(opts), diffLines(wd, gd))
	}
	// involution: fixing the swapped feed gives the preserved parse of the original
	fixSwapped, err, ok := parseRT(c, marshalFeed(swapFeed(m)), &gtfs.ParseRealtimeOptions{Timezone: tzo.loc, Extension: nycttrips.Extension(nycttrips.ExtensionOpts{FilterStaleUnassignedTrips: opts.FilterStaleUnassignedTrips})})
	preserved, err2, ok2 := parseRT(c, b, &gtfs.ParseRealtimeOptions{Timezone: tzo.loc, Extension: nycttrips.Extension(nycttrips.ExtensionOpts{FilterStaleUnassignedTrips: opts.FilterStaleUnassignedTrips, PreserveMTrainPlatformsInBushwick: true})})
	if !ok || !ok2 || err != nil || err2 != nil {
		return
	}
	if a, bb := dumpRealtime(fixSwapped, o), dumpRealtime(preserved, o); a != bb {
		c.Fail("swap-not-involutive", "fix(swap(F)) differs from preserve(F)\n%s", diffLines(bb, a))
	}
}

func c16MTrain(c *Ctx) {
	route := []string{"M", "J", "<absent>"}[c.Free("route", 3)]
	opts := nyctOptCombos[c.Free("options", 4)]
	// plain entities may carry trip ids of the NYCT shape (without the NYCT descriptor they are
	// plain all the same), with or without a start time of their own
	tripID := []string{"plain-1", "051150_A..S55R", "123400_M..N"}[c.Free("trip_id_shape", 3)]
	td := &gtfsrt.TripDescriptor{TripId: sp(tripID)}
	if route != "<absent>" {
		td.RouteId = &route
	}
	ownStart := c.Free("own_start_time", 2) == 1
	if ownStart {
		td.StartTime = sp("20:00:00")
		td.StartDate = sp("20240102")
	}
	tu := &gtfsrt.TripUpdate{Trip: td}
	var ids []string
	nStops := 2
	if route == "M" {
		nStops = 3 // affected platforms on both sides of one that is not (or has no stop id)
	}
	for j := 0; j < nStops; j++ {
		s := mStopAlphabet[c.Free(fmt.Sprintf("stop[%d]", j), len(mStopAlphabet))]
		u := &gtfsrt.TripUpdate_StopTimeUpdate{StopSequence: cp(new(uint32)), Arrival: &gtfsrt.TripUpdate_StopTimeEvent{Time: cp2(1700000100 + int64(j))}}
		if s != "<absent>" {
			u.StopId = sp(s)
		}
		tu.StopTimeUpdate = append(tu.StopTimeUpdate, u)
		ids = append(ids, s)
	}
	m := newFeed(cp(&tsAlphabet[0]))
	m.Entity = []*gtfsrt.FeedEntity{{Id: sp("e"), TripUpdate: tu}, {Id: sp("v"), Vehicle: &gtfsrt.VehiclePosition{StopId: sp("M11N"), Vehicle: &gtfsrt.VehicleDescriptor{Id: sp("V")}, Trip: &gtfsrt.TripDescriptor{TripId: sp("other"), RouteId: sp("M")}}}}
	if tripID != "plain-1" {
		m.Entity[1].Vehicle.Trip.TripId = sp("0" + tripID[1:])
		if ownStart {
			m.Entity[1].Vehicle.Trip.StartTime = sp("20:00:00")
		}
		c.Witness("plain_entity_with_nyct_shaped_trip_id")
	}
	if route == "M" && (refSwap(ids[0]) != ids[0] || refSwap(ids[1]) != ids[1] || refSwap(ids[2]) != ids[2]) {
		c.Witness("m_train_swap_applies")
	}
	c16TransparencyCheck(c, m, opts, tzOptions[0], fmt.Sprintf("route=%s trip_id=%s own start=%v stops=%q", route, tripID, ownStart, ids))
}

// c16Neighbours: a stale unassigned trip update (dropped when the filter is on) next to other
// entities in every order: what is dropped is that trip update and nothing else.
func c16Neighbours(c *Ctx) {
	opts := nyctOptCombos[c.Free("options", 4)]
	ts := uint64(1700000000)
	no := false
	staleTD := &gtfsrt.TripDescriptor{TripId: sp("060000_L..N"), RouteId: sp("L"), StartDate: sp("20231114")}
	proto.SetExtension(staleTD, gtfsrt.E_NyctTripDescriptor, &gtfsrt.NyctTripDescriptor{TrainId: sp("0L 1000 8AV/RPY"), IsAssigned: &no, Direction: gtfsrt.NyctTripDescriptor_NORTH.Enum()})
	ents := []*gtfsrt.FeedEntity{
		{Id: sp("stale"), TripUpdate: &gtfsrt.TripUpdate{Trip: staleTD, StopTimeUpdate: []*gtfsrt.TripUpdate_StopTimeUpdate{{StopId: sp("L01N"), Departure: &gtfsrt.TripUpdate_StopTimeEvent{Time: cp2(int64(ts) - 600)}}}}},
		{Id: sp("plainVP"), Vehicle: &gtfsrt.VehiclePosition{Vehicle: &gtfsrt.VehicleDescriptor{Id: sp("BUS1")}, Trip: &gtfsrt.TripDescriptor{TripId: sp("bus-trip")}, StopId: sp("B1")}},
		{Id: sp("plainTU"), TripUpdate: &gtfsrt.TripUpdate{Trip: &gtfsrt.TripDescriptor{TripId: sp("bus-trip-2")}, StopTimeUpdate: []*gtfsrt.TripUpdate_StopTimeUpdate{{StopId: sp("B2")}}}},
		{Id: sp("bareVP"), Vehicle: &gtfsrt.VehiclePosition{StopId: sp("B3")}},
	}
	perm := c.Perm("order", len(ents))
	m := newFeed(&ts)
	for _, j := range perm {
		m.Entity = append(m.Entity, ents[j])
	}
	b := marshalFeed(m)
	desc := "order=" + entityOrder(m) + " opts=" + nyctOptName(opts)
	c.Input(hash64(string(b)+nyctOptName(opts)), true, func() string { return desc })
	r, err, ok := parseRT(c, b, &gtfs.ParseRealtimeOptions{Extension: nycttrips.Extension(opts)})
	if !ok {
		return
	}
	if err != nil {
		c.Fail("valid-message-rejected", "%v", err)
		return
	}
	c.Steps(len(ents))
	// expectation: the extension-free parse of the message without the stale entity (filter on) /
	// of the other entities plus whatever the stale one yields (filter off: compared on the others only)
	m2 := newFeed(&ts)
	for _, e := range m.Entity {
		if e.GetId() != "stale" {
			m2.Entity = append(m2.Entity, e)
		}
	}
	plain, err2, ok2 := parseRT(c, marshalFeed(m2), &gtfs.ParseRealtimeOptions{})
	if !ok2 || err2 != nil {
		return
	}
	keep := func(rt *gtfs.Realtime) string {
		// everything except the NYCT trip itself (an unassigned trip has no vehicle)
		cp := *rt
		cp.Trips = nil
		for i := range rt.Trips {
			if rt.Trips[i].ID.ID != "060000_L..N" {
				cp.Trips = append(cp.Trips, rt.Trips[i])
			}
		}
		return dumpRealtime(&cp, rtDumpOpts{links: true, sortVehicles: true})
	}
	wd, gd := keep(plain), keep(r)
	c.Outcome(gd)
	if wd != gd {
		c.Fail("not-transparent:neighbour-of-a-stale-trip", "%s: the entities next to a stale trip update do not parse as without the extension\n%s", desc, diffLines(wd, gd))
	}
	if opts.FilterStaleUnassignedTrips {
		for i := range r.Trips {
			if r.Trips[i].ID.ID == "060000_L..N" {
				c.Fail("stale-filter", "%s: the stale unassigned trip was kept", desc)
			}
		}
		c.Witness("stale_trip_dropped_next_to_other_entities")
	}
}

func c16PlainFeeds(c *Ctx) {
	opts := nyctOptCombos[c.Free("options", 4)]
	g := genC02(c, true)
	if g.skip != "" {
		return
	}
	c16TransparencyCheck(c, g.msg, opts, g.tz, "C02 rich feed")
}

var _ = strings.Join

func init() {
	register(&Check{
		ID:    "C16",
		Level: "model_checking",
		Rule: "(a) all 1 000 000 six-digit origin prefixes over five id forms (routes of one and two characters: _6..N01R, _GS.N01R, _SI.N03R, _7X.S, _A..S55R); (b) full product of entity kind x is_assigned x direction x train id x existing vehicle descriptor x trip-id kind x tracks x first-stop times (both sides of and equal to the feed timestamp) x stop-time count x header timestamp {set, absent, 0} x the trip update's own timestamp {absent, earlier, later}; tracks also: first stop without the NYCT stop-time extension (or with an empty one) and tracks at the later stops; x 4 option combinations; a stale unassigned trip update followed / preceded by plain and NYCT vehicle positions and a plain trip update; (c) transparency: route {M,J,-} x trip id {plain, two of the NYCT shape} x own start time x two stop ids over a 15-value alphabet x 4 options, and the rich C02 feed within 1 deviation x 4 options; " +
			"non-trivial = distinct (message, options) pairs (origin prefixes below 600000); oracle = reference rules from the statement + differential against the extension-free parse",
		Assumptions: []string{"direction is asserted for NORTH and SOUTH only", "the stale rule is not asserted when the first stop's departure is present with value 0 (indistinguishable from missing through proto2 getters)", "an assigned trip without a train id is not asserted to have a vehicle"},
		Scenarios: func(tier string) []*Scenario {
			k := 1
			if tier == "thorough" {
				k = 2
			}
			return []*Scenario{
				{Name: "origin-times", Bound: -1, Run: c16Origin},
				{Name: "rules-product", Bound: -1, Run: c16Rules},
				{Name: "shared-train-id", Bound: -1, Run: c16SharedTrain},
				{Name: "neighbours-of-a-stale-trip", Bound: -1, Run: c16Neighbours},
				{Name: "m-train-transparency", Bound: -1, Run: c16MTrain},
				{Name: "plain-feeds", Bound: k, Run: c16PlainFeeds},
			}
		},
	})
}
