package main

// Realtime message model: builders that turn choice points into gtfs-realtime protobuf
// messages, a renderer (proto.Marshal; protobuf-go is trusted base) and a reference
// interpretation refParse(msg, tz) written from the property statements, independent of
// realtime.go (it shares only the exported result *types*).

import (
	"fmt"
	"sort"
	"strings"
	"time"

	"github.com/jamespfennell/gtfs"
	gtfsrt "github.com/jamespfennell/gtfs/proto"
	"google.golang.org/protobuf/encoding/prototext"
	"google.golang.org/protobuf/proto"
)

// optIdx is a choice point for an optional field with n candidate values. It returns -1
// for "absent" or the index of the value. Choice 0 is the base state.
func optIdx(c *Ctx, label string, basePresent bool, n int) int {
	v := c.Choose(label, n+1)
	if basePresent {
		switch {
		case v == 0:
			return 0
		case v == 1:
			return -1
		default:
			return v - 1
		}
	}
	return v - 1
}

func optStr(c *Ctx, label string, basePresent bool, vals ...string) *string {
	i := optIdx(c, label, basePresent, len(vals))
	if i < 0 {
		return nil
	}
	s := vals[i]
	return &s
}

func optU64(c *Ctx, label string, basePresent bool, vals ...uint64) *uint64 {
	i := optIdx(c, label, basePresent, len(vals))
	if i < 0 {
		return nil
	}
	v := vals[i]
	return &v
}

func optI64(c *Ctx, label string, basePresent bool, vals ...int64) *int64 {
	i := optIdx(c, label, basePresent, len(vals))
	if i < 0 {
		return nil
	}
	v := vals[i]
	return &v
}

func optU32(c *Ctx, label string, basePresent bool, vals ...uint32) *uint32 {
	i := optIdx(c, label, basePresent, len(vals))
	if i < 0 {
		return nil
	}
	v := vals[i]
	return &v
}

func optI32(c *Ctx, label string, basePresent bool, vals ...int32) *int32 {
	i := optIdx(c, label, basePresent, len(vals))
	if i < 0 {
		return nil
	}
	v := vals[i]
	return &v
}

func optF32(c *Ctx, label string, basePresent bool, vals ...float32) *float32 {
	i := optIdx(c, label, basePresent, len(vals))
	if i < 0 {
		return nil
	}
	v := vals[i]
	return &v
}

func optF64(c *Ctx, label string, basePresent bool, vals ...float64) *float64 {
	i := optIdx(c, label, basePresent, len(vals))
	if i < 0 {
		return nil
	}
	v := vals[i]
	return &v
}

func sp(s string) *string { return &s }

func marshalFeed(m *gtfsrt.FeedMessage) []byte {
	fieldcovRecord(m)
	b, err := proto.Marshal(m)
	if err != nil {
		harnessBug("proto.Marshal: %v", err)
	}
	return b
}

// marshalFeedPartial encodes a message whose required fields may be missing.
func marshalFeedPartial(m *gtfsrt.FeedMessage) []byte {
	fieldcovRecord(m)
	b, err := proto.MarshalOptions{AllowPartial: true}.Marshal(m)
	if err != nil {
		harnessBug("proto.Marshal: %v", err)
	}
	return b
}

func feedText(m *gtfsrt.FeedMessage) string {
	return prototext.MarshalOptions{Multiline: true, Indent: " "}.Format(m)
}

func newFeed(ts *uint64) *gtfsrt.FeedMessage {
	return &gtfsrt.FeedMessage{Header: &gtfsrt.FeedHeader{GtfsRealtimeVersion: sp("2.0"), Timestamp: ts}}
}

// ---------------------------------------------------------------------------------------
// reference interpretation (no extension)

// civilMidnight is the start of the civil date y-m-d in zone tz, computed from zone offsets
// (not through time.Date in that zone): the instant whose wall clock in tz reads 00:00:00.
func civilMidnight(y, m, d int, tz *time.Location) time.Time {
	utcMid := time.Date(y, time.Month(m), d, 0, 0, 0, 0, time.UTC)
	t := utcMid
	for i := 0; i < 3; i++ {
		_, off := t.In(tz).Zone()
		t = utcMid.Add(-time.Duration(off) * time.Second)
	}
	return t.In(tz)
}

func atoiStrict(s string) (int, bool) {
	if s == "" {
		return 0, false
	}
	n := 0
	for _, ch := range s {
		if ch < '0' || ch > '9' {
			return 0, false
		}
		n = n*10 + int(ch-'0')
	}
	return n, true
}

func refTripID(d *gtfsrt.TripDescriptor, tz *time.Location) gtfs.TripID {
	var id gtfs.TripID
	if tz == nil {
		tz = time.UTC
	}
	if d.TripId != nil {
		id.ID = *d.TripId
	}
	if d.RouteId != nil {
		id.RouteID = *d.RouteId
	}
	if d.DirectionId != nil {
		if *d.DirectionId == 0 {
			id.DirectionID = gtfs.DirectionID_False
		} else {
			id.DirectionID = gtfs.DirectionID_True
		}
	}
	if d.ScheduleRelationship != nil {
		id.ScheduleRelationship = *d.ScheduleRelationship
	}
	if d.StartTime != nil {
		p := strings.Split(*d.StartTime, ":")
		if len(p) == 3 && len(p[0]) == 2 && len(p[1]) == 2 && len(p[2]) == 2 {
			h, ok1 := atoiStrict(p[0])
			mi, ok2 := atoiStrict(p[1])
			s, ok3 := atoiStrict(p[2])
			if ok1 && ok2 && ok3 {
				id.HasStartTime = true
				id.StartTime = time.Duration(h*3600+mi*60+s) * time.Second
			}
		}
	}
	if d.StartDate != nil && len(*d.StartDate) == 8 {
		if v, ok := atoiStrict(*d.StartDate); ok {
			id.HasStartDate = true
			id.StartDate = civilMidnight(v/10000, (v/100)%100, v%100, tz)
		}
	}
	return id
}

func refVehicleID(d *gtfsrt.VehicleDescriptor) *gtfs.VehicleID {
	if d == nil {
		return nil
	}
	var id gtfs.VehicleID
	if d.Id != nil {
		id.ID = *d.Id
	}
	if d.Label != nil {
		id.Label = *d.Label
	}
	if d.LicensePlate != nil {
		id.LicensePlate = *d.LicensePlate
	}
	if id == (gtfs.VehicleID{}) {
		return nil
	}
	return &id
}

func refInstant(sec int64, tz *time.Location) *time.Time {
	t := time.Unix(sec, 0).In(tz)
	return &t
}

func refEvent(e *gtfsrt.TripUpdate_StopTimeEvent, tz *time.Location) *gtfs.StopTimeEvent {
	if e == nil {
		return nil
	}
	out := &gtfs.StopTimeEvent{}
	if e.Time != nil {
		out.Time = refInstant(*e.Time, tz)
	}
	if e.Delay != nil {
		d := time.Duration(int64(*e.Delay)) * time.Second
		out.Delay = &d
	}
	if e.Uncertainty != nil {
		u := *e.Uncertainty
		out.Uncertainty = &u
	}
	return out
}

func refTexts(ts *gtfsrt.TranslatedString) []gtfs.AlertText {
	if ts == nil {
		return nil
	}
	var out []gtfs.AlertText
	for _, t := range ts.Translation {
		a := gtfs.AlertText{}
		if t.Text != nil {
			a.Text = *t.Text
		}
		if t.Language != nil {
			a.Language = *t.Language
		}
		out = append(out, a)
	}
	return out
}

var knownRouteTypes = map[int32]bool{0: true, 1: true, 2: true, 3: true, 4: true, 5: true, 6: true, 7: true, 11: true, 12: true}

func refRouteType(p *int32) gtfs.RouteType {
	if p == nil || !knownRouteTypes[*p] {
		return gtfs.RouteType_Unknown
	}
	return gtfs.RouteType(*p)
}

func refDirection(p *uint32) gtfs.DirectionID {
	if p == nil {
		return gtfs.DirectionID_Unspecified
	}
	if *p == 0 {
		return gtfs.DirectionID_False
	}
	return gtfs.DirectionID_True
}

func identifiable(id *gtfs.TripID) bool {
	return id != nil && (id.ID != "" || (id.RouteID != "" && id.DirectionID != gtfs.DirectionID_Unspecified && id.HasStartTime && id.HasStartDate))
}

// refAlert interprets an alert. The informed entities follow the C12 statement; the
// fall-back routes (descriptor names only a route) are returned separately because their
// order is not specified.
func refAlert(id string, a *gtfsrt.Alert, tz *time.Location) (alert gtfs.Alert, fallback []gtfs.AlertInformedEntity, lenient map[string]bool, trips []gtfs.TripID) {
	alert.ID = id
	alert.Cause = gtfsrt.Alert_UNKNOWN_CAUSE
	if a.Cause != nil {
		alert.Cause = *a.Cause
	}
	alert.Effect = gtfsrt.Alert_UNKNOWN_EFFECT
	if a.Effect != nil {
		alert.Effect = *a.Effect
	}
	for _, p := range a.ActivePeriod {
		ap := gtfs.AlertActivePeriod{}
		if p.Start != nil {
			ap.StartsAt = refInstant(int64(*p.Start), tz)
		}
		if p.End != nil {
			ap.EndsAt = refInstant(int64(*p.End), tz)
		}
		alert.ActivePeriods = append(alert.ActivePeriods, ap)
	}
	alert.Header = refTexts(a.HeaderText)
	alert.Description = refTexts(a.DescriptionText)
	alert.URL = refTexts(a.Url)

	explicit := map[string]bool{}
	for _, e := range a.InformedEntity {
		if e.RouteId != nil {
			explicit[*e.RouteId] = true
		}
	}
	type dirs struct{ f, t, both bool }
	fb := map[string]*dirs{}
	var fbOrder []string
	lenient = map[string]bool{}
	for _, e := range a.InformedEntity {
		var tid *gtfs.TripID
		if e.Trip != nil {
			t := refTripID(e.Trip, tz)
			tid = &t
		}
		ie := gtfs.AlertInformedEntity{AgencyID: e.AgencyId, RouteID: e.RouteId, RouteType: refRouteType(e.RouteType), DirectionID: refDirection(e.DirectionId), StopID: e.StopId}
		if identifiable(tid) {
			ie.TripID = tid
			trips = append(trips, *tid)
		}
		if tid != nil && !identifiable(tid) && tid.RouteID != "" {
			// descriptor names a route but no trip: route fall-back. The statement covers
			// descriptors with only a route and optionally a direction; with further
			// (partial) fields the fall-back is neither required nor forbidden.
			if tid.HasStartDate || tid.HasStartTime || e.Trip.ScheduleRelationship != nil {
				lenient[tid.RouteID] = true
			}
			d := fb[tid.RouteID]
			if d == nil {
				d = &dirs{}
				fb[tid.RouteID] = d
				fbOrder = append(fbOrder, tid.RouteID)
			}
			switch tid.DirectionID {
			case gtfs.DirectionID_Unspecified:
				d.both = true
			case gtfs.DirectionID_False:
				d.f = true
			case gtfs.DirectionID_True:
				d.t = true
			}
		}
		if ie.AgencyID == nil && ie.RouteID == nil && ie.RouteType == gtfs.RouteType_Unknown && ie.StopID == nil && ie.TripID == nil {
			continue // informs nothing
		}
		alert.InformedEntities = append(alert.InformedEntities, ie)
	}
	for _, r := range fbOrder {
		if explicit[r] {
			continue
		}
		d := fb[r]
		rc := r
		ie := gtfs.AlertInformedEntity{RouteID: &rc, RouteType: gtfs.RouteType_Unknown}
		if !(d.both || (d.f && d.t)) {
			if d.f {
				ie.DirectionID = gtfs.DirectionID_False
			} else {
				ie.DirectionID = gtfs.DirectionID_True
			}
		}
		fallback = append(fallback, ie)
	}
	return
}

// refTripLess is the documented order of trip identifiers.
func refTripLess(a, b gtfs.TripID) bool {
	if a.ID != b.ID {
		return a.ID < b.ID
	}
	if a.RouteID != b.RouteID {
		return a.RouteID < b.RouteID
	}
	if a.DirectionID != b.DirectionID {
		return a.DirectionID < b.DirectionID
	}
	if a.HasStartTime != b.HasStartTime {
		return !a.HasStartTime
	}
	if a.StartTime != b.StartTime {
		return a.StartTime < b.StartTime
	}
	if a.HasStartDate != b.HasStartDate {
		return !a.HasStartDate
	}
	if !a.StartDate.Equal(b.StartDate) {
		return a.StartDate.Before(b.StartDate)
	}
	return a.ScheduleRelationship < b.ScheduleRelationship
}

type refResult struct {
	rt *gtfs.Realtime
	// fall-back informed entities per alert (order unspecified) and lenient routes
	fallback [][]gtfs.AlertInformedEntity
	lenient  []map[string]bool
	// associations: trip key -> vehicle key ("" for id-less vehicles: index into Vehicles)
	assocTripToVehicle map[string]int
}

// refParse interprets a conflict-free message without extension. Trips are sorted by the
// documented identifier order; vehicles with an id come in first-mention order followed by
// the id-less ones (callers compare Vehicles as a multiset).
func refParse(m *gtfsrt.FeedMessage, tz *time.Location) *refResult {
	if tz == nil {
		tz = time.UTC
	}
	res := &refResult{rt: &gtfs.Realtime{}, assocTripToVehicle: map[string]int{}}
	rt := res.rt
	if m.Header != nil && m.Header.Timestamp != nil {
		rt.CreatedAt = time.Unix(int64(*m.Header.Timestamp), 0).In(tz)
	}
	tripIdx := map[string]int{}
	var trips []*gtfs.Trip
	getTrip := func(id gtfs.TripID) *gtfs.Trip {
		k := dumpTripID(id)
		if i, ok := tripIdx[k]; ok {
			return trips[i]
		}
		tripIdx[k] = len(trips)
		trips = append(trips, &gtfs.Trip{ID: id})
		return trips[len(trips)-1]
	}
	vehIdx := map[gtfs.VehicleID]int{}
	var vehicles []*gtfs.Vehicle
	getVehicle := func(id *gtfs.VehicleID) *gtfs.Vehicle {
		if id != nil {
			if i, ok := vehIdx[*id]; ok {
				return vehicles[i]
			}
			vehIdx[*id] = len(vehicles)
		}
		vehicles = append(vehicles, &gtfs.Vehicle{ID: id})
		return vehicles[len(vehicles)-1]
	}
	for _, e := range m.Entity {
		switch {
		case e.TripUpdate != nil:
			tu := e.TripUpdate
			if tu.Trip == nil {
				continue
			}
			t := getTrip(refTripID(tu.Trip, tz))
			t.IsEntityInMessage = true
			t.StopTimeUpdates = nil
			for _, u := range tu.StopTimeUpdate {
				su := gtfs.StopTimeUpdate{StopSequence: u.StopSequence, StopID: u.StopId, Arrival: refEvent(u.Arrival, tz), Departure: refEvent(u.Departure, tz)}
				if u.ScheduleRelationship != nil {
					su.ScheduleRelationship = *u.ScheduleRelationship
				}
				t.StopTimeUpdates = append(t.StopTimeUpdates, su)
			}
			if tu.Vehicle != nil {
				if vid := refVehicleID(tu.Vehicle); vid != nil {
					getVehicle(vid)
				} else {
					getVehicle(nil) // an empty descriptor: an id-less vehicle mention
				}
			}
		case e.Vehicle != nil:
			vp := e.Vehicle
			v := getVehicle(refVehicleID(vp.Vehicle))
			v.IsEntityInMessage = true
			if p := vp.Position; p != nil {
				v.Position = &gtfs.Position{Latitude: p.Latitude, Longitude: p.Longitude, Bearing: p.Bearing, Odometer: p.Odometer, Speed: p.Speed}
			}
			v.CurrentStopSequence = vp.CurrentStopSequence
			v.StopID = vp.StopId
			v.CurrentStatus = vp.CurrentStatus
			if vp.Timestamp != nil {
				v.Timestamp = refInstant(int64(*vp.Timestamp), tz)
			}
			if vp.CongestionLevel != nil {
				v.CongestionLevel = *vp.CongestionLevel
			}
			v.OccupancyStatus = vp.OccupancyStatus
			v.OccupancyPercentage = vp.OccupancyPercentage
			if vp.Trip != nil {
				getTrip(refTripID(vp.Trip, tz))
			}
		case e.Alert != nil:
			id := ""
			if e.Id != nil {
				id = *e.Id
			}
			a, fb, len_, ts := refAlert(id, e.Alert, tz)
			rt.Alerts = append(rt.Alerts, a)
			res.fallback = append(res.fallback, fb)
			res.lenient = append(res.lenient, len_)
			for _, t := range ts {
				getTrip(t)
			}
		}
	}
	sort.SliceStable(trips, func(i, j int) bool { return refTripLess(trips[i].ID, trips[j].ID) })
	for _, t := range trips {
		rt.Trips = append(rt.Trips, *t)
	}
	for _, v := range vehicles {
		rt.Vehicles = append(rt.Vehicles, *v)
	}
	return res
}

// parseRT runs the real parser under guard.
func parseRT(c *Ctx, b []byte, opts *gtfs.ParseRealtimeOptions) (r *gtfs.Realtime, err error, ok bool) {
	pan, where, text, stack := guard(func() { r, err = gtfs.ParseRealtime(b, opts) })
	if pan {
		c.Fail("panic:"+where+":"+text, "ParseRealtime panicked: %s\n%s", text, stack)
		return nil, nil, false
	}
	return r, err, true
}

func sortedLines(s string) string {
	l := strings.Split(s, "\n")
	sort.Strings(l)
	return strings.Join(l, "\n")
}

var _ = fmt.Sprintf
