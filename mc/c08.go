package main

// C08 - static output order: file order kept, sequences sorted, row order irrelevant.
//
// Enumerated: feeds with 2-3 trips x 1-3 stop times (<= 6 rows; thorough <= 8) and 2-3 shapes
// x 1-3 points, sequence numbers whose text order differs from their numeric order, and EVERY
// permutation of the rows of stop_times.txt / shapes.txt (interleaved trips included); for
// the "file order kept" half every permutation of the rows of each other file.
// Oracles: (1) the reference interpretation (sorted by numeric sequence, shapes by id, other
// collections in row order); (2) cross-execution relation: all permutations of stop_times /
// shapes rows of the same feed give one and the same dump.

import (
	"fmt"
	"strconv"

	"github.com/jamespfennell/gtfs"
)

// distributions of rows over trips / shapes
var c08Dists = map[string][][]int{
	"quick":    {{0, 0, 0, 1, 1, 1}, {0, 0, 1, 1, 2, 2}, {0, 1, 1, 2, 2, 2}, {0, 0, 0, 0, 1}, {0, 1, 2}},
	"thorough": {{0, 0, 0, 0, 1, 1, 1, 1}, {0, 0, 0, 1, 1, 1, 2, 2}, {0, 1, 1, 2, 2, 2, 2}, {0, 0, 0, 1, 1, 1}, {0, 0, 1, 1, 2, 2}, {0, 1, 1, 2, 2, 2}},
}

func maxOf(a []int) int {
	m := 0
	for _, v := range a {
		if v > m {
			m = v
		}
	}
	return m
}

func permuteRows(t *table, perm []int) {
	rows := make([][]string, len(t.Rows))
	for i, j := range perm {
		rows[i] = t.Rows[j]
	}
	t.Rows = rows
}

func sameZone(m *feedModel) {
	a := m.t("agency.txt")
	for r := range a.Rows {
		a.set(r, "agency_timezone", "America/New_York")
	}
}

func c08Compare(c *Ctx, m *feedModel, relation, key string, permuted bool) {
	b := renderFeed(m, presentation{})
	c.Input(hash64(string(b)), permuted, func() string { return m.text() })
	r, err, ok := parseStaticGuarded(c, b, gtfs.ParseStaticOptions{})
	if !ok {
		return
	}
	c.Steps(len(m.Tables))
	if err != nil {
		c.Fail("valid-feed-rejected", "%v", err)
		return
	}
	want := refStatic(m, refStaticOpts{})
	o := staticDumpOpts{sortServices: true, byID: true}
	wd, gd := dumpStatic(want, o), dumpStatic(r, o)
	c.Outcome(gd)
	if wd != gd {
		c.Fail("order:"+firstDiffKind(wd, gd), "order/content differs from the reference (sequences ascending, shapes by id, other collections in row order)\n%s", diffLines(wd, gd))
	}
	if relation != "" {
		c.Relate(relation, key, gd)
	}
}

func c08StopTimes(tier string) Harness {
	dists := c08Dists[tier]
	return func(c *Ctx) {
		d := dists[c.Free("distribution", len(dists))]
		n := baseCounts
		n.trips = maxOf(d) + 1
		m := genStaticFeedN(c, false, n, d, nil)
		sameZone(m)
		// sequence numbers at numeric boundaries: around 2^31, beyond 2^32 (stop_sequence is an int)
		if tr := c.Free("sequence_range", 4); tr > 0 {
			st := m.t("stop_times.txt")
			for r := range st.Rows {
				v, _ := st.get(r, "stop_sequence")
				n, _ := strconv.ParseInt(v, 10, 64)
				switch tr {
				case 1:
					n += 2147483646 // straddles 2^31
				case 2:
					n = n<<32 + (1000 - n) // high word ascending, low word descending
				case 3:
					n = n*1000003 + 1
				}
				st.set(r, "stop_sequence", strconv.FormatInt(n, 10))
			}
		}
		perm := c.Perm("stop_times.row", len(d))
		permuteRows(m.t("stop_times.txt"), perm)
		identity := true
		interleaved := false
		for i, j := range perm {
			if i != j {
				identity = false
			}
		}
		st := m.t("stop_times.txt")
		seenDone := map[string]bool{}
		last := ""
		for r := range st.Rows {
			id, _ := st.get(r, "trip_id")
			if id != last {
				if seenDone[id] {
					interleaved = true
				}
				seenDone[last] = true
				last = id
			}
		}
		if interleaved {
			c.Witness("rows_of_different_trips_interleaved")
		}
		firstSeq, _ := m.t("stop_times.txt").get(0, "stop_sequence")
		_ = firstSeq
		c08Compare(c, m, "stop_times-row-order-irrelevant", fmt.Sprint(d)+seqRangeKey(m), !identity)
	}
}

// seqRangeKey identifies the set of sequence numbers of the feed (independent of row order).
func seqRangeKey(m *feedModel) string {
	st := m.t("stop_times.txt")
	var max int64
	for r := range st.Rows {
		v, _ := st.get(r, "stop_sequence")
		n, _ := strconv.ParseInt(v, 10, 64)
		if n > max {
			max = n
		}
	}
	return fmt.Sprint("/max-seq=", max)
}

func c08Shapes(tier string) Harness {
	dists := c08Dists[tier]
	return func(c *Ctx) {
		d := dists[c.Free("distribution", len(dists))]
		m := genStaticFeedN(c, false, baseCounts, nil, d)
		sameZone(m)
		// shape ids whose order by id differs from their order of appearance and whose lengths differ
		rename := map[string]string{"SH1": "b", "SH2": "a10", "SH3": "a9"}
		for _, f := range []string{"shapes.txt", "trips.txt"} {
			t := m.t(f)
			for r := range t.Rows {
				if v, _ := t.get(r, "shape_id"); rename[v] != "" {
					t.set(r, "shape_id", rename[v])
				}
			}
		}
		perm := c.Perm("shapes.row", len(d))
		permuteRows(m.t("shapes.txt"), perm)
		identity := true
		for i, j := range perm {
			if i != j {
				identity = false
			}
		}
		// shape ids whose id order differs from their first appearance
		if !identity {
			c.Witness("shape_rows_permuted")
		}
		c08Compare(c, m, "shapes-row-order-irrelevant", fmt.Sprint(d), !identity)
	}
}

func c08OtherFile(file string, n staticCounts) Harness {
	return func(c *Ctx) {
		m := genStaticFeedN(c, false, n, nil, nil)
		sameZone(m)
		t := m.t(file)
		perm := c.Perm(file+".row", len(t.Rows))
		permuteRows(t, perm)
		identity := true
		for i, j := range perm {
			if i != j {
				identity = false
			}
		}
		if !identity {
			c.Witness("rows_permuted")
		}
		c08Compare(c, m, "", "", !identity)
	}
}

func init() {
	register(&Check{
		ID:    "C08",
		Level: "model_checking",
		Rule: "feeds with rows distributed over 2-3 trips / shapes (5 distributions of <=6 rows; thorough 6 distributions of <=8 rows), sequence numbers 2,10,100,0,33,... (text order != numeric order), also shifted to straddle 2^31, spread beyond 2^32 and multiplied; ALL permutations of stop_times.txt rows and of shapes.txt rows; ALL permutations of the rows of agency, routes, stops, transfers, calendar, calendar_dates, trips, frequencies (3-5 rows each); " +
			"non-trivial = distinct archives whose rows are not in identity order; oracles = reference interpretation + relation (feed up to row order -> dump)",
		Assumptions: []string{"all agencies share one zone in this check (the first agency legitimately determines the zone of every date)", "reference targets are named by id so that a permuted collection compares independent of indices"},
		Scenarios: func(tier string) []*Scenario {
			big := baseCounts
			big.agencies, big.routes, big.stops, big.transfers, big.calendars, big.calendarDates, big.trips, big.frequencies = 3, 3, 4, 3, 3, 4, 3, 4
			if tier == "thorough" {
				big.agencies, big.routes, big.stops, big.transfers, big.calendars, big.calendarDates, big.trips, big.frequencies = 4, 4, 5, 4, 4, 5, 4, 5
			}
			s := []*Scenario{{Name: "stop_times-permutations", Bound: -1, Run: c08StopTimes(tier)}, {Name: "shapes-permutations", Bound: -1, Run: c08Shapes(tier)}}
			for _, f := range []string{"agency.txt", "routes.txt", "stops.txt", "transfers.txt", "calendar.txt", "calendar_dates.txt", "trips.txt", "frequencies.txt"} {
				s = append(s, &Scenario{Name: "file-order/" + f, Bound: -1, Run: c08OtherFile(f, big)})
			}
			return s
		},
	})
}
