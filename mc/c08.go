package main

// C08 - static output order: file order kept, sequences sorted, row order irrelevant.
//
// Enumerated: feeds with 2-3 trips x 1-3 stop times (<= 6 rows; thorough <= 8) and 2-3 shapes
// x 1-3 points, sequence numbers whose text order differs from their numeric order, and EVERY
// permutation of the rows of stop_times.txt / shapes.txt (interleaved trips included); for
// the "file order kept" half every permutation of the rows of each other file.
// Oracles: (1) the reference interpretation (sorted by numeric sequence, shapes by id, other
// collections in row order); (2) cross-execution relation: all permutations of stop_times /
// shapes rows of the same feed give one and the same dump.

import (
	"fmt"
	"sort"
	"strconv"

	"github.com/jamespfennell/gtfs"
)

// distributions of rows over trips / shapes
var c08Dists = map[string][][]int{
	"quick":    {{0, 0, 0, 1, 1, 1}, {0, 0, 1, 1, 2, 2}, {0, 1, 1, 2, 2, 2}, {0, 0, 0, 0, 1}, {0, 1, 2}},
	"thorough": {{0, 0, 0, 0, 1, 1, 1, 1}, {0, 0, 0, 1, 1, 1, 2, 2}, {0, 1, 1, 2, 2, 2, 2}, {0, 0, 0, 1, 1, 1}, {0, 0, 1, 1, 2, 2}, {0, 1, 1, 2, 2, 2}},
}

func maxOf(a []int) int {
	m := 0
	for _, v := range a {
		if v > m {
			m = v
		}
	}
	return m
}

func permuteRows(t *table, perm []int) {
	rows := make([][]string, len(t.Rows))
	for i, j := range perm {
		rows[i] = t.Rows[j]
	}
	t.Rows = rows
}

func sameZone(m *feedModel) {
	a := m.t("agency.txt")
	for r := range a.Rows {
		a.set(r, "agency_timezone", "America/New_York")
	}
}

func c08Compare(c *Ctx, m *feedModel, relation, key string, permuted bool) {
	b := renderFeed(m, presentation{})
	c.Input(hash64(string(b)), permuted, func() string { return m.text() })
	r, err, ok := parseStaticGuarded(c, b, gtfs.ParseStaticOptions{})
	if !ok {
		return
	}
	c.Steps(len(m.Tables))
	if err != nil {
		c.Fail("valid-feed-rejected", "%v", err)
		return
	}
	want := refStatic(m, refStaticOpts{})
	o := staticDumpOpts{sortServices: true, byID: true}
	wd, gd := dumpStatic(want, o), dumpStatic(r, o)
	c.Outcome(gd)
	if wd != gd {
		c.Fail("order:"+firstDiffKind(wd, gd), "order/content differs from the reference (sequences ascending, shapes by id, other collections in row order)\n%s", diffLines(wd, gd))
	}
	if relation != "" {
		c.Relate(relation, key, gd)
	}
}

func c08StopTimes(tier string) Harness {
	dists := c08Dists[tier]
	return func(c *Ctx) {
		d := dists[c.Free("distribution", len(dists))]
		n := baseCounts
		n.trips = maxOf(d) + 1
		m := genStaticFeedN(c, false, n, d, nil)
		sameZone(m)
		// sequence numbers at numeric boundaries: around 2^31, beyond 2^32 (stop_sequence is an int)
		if tr := c.Free("sequence_range", 4); tr > 0 {
			st := m.t("stop_times.txt")
			for r := range st.Rows {
				v, _ := st.get(r, "stop_sequence")
				n, _ := strconv.ParseInt(v, 10, 64)
				switch tr {
				case 1:
					n += 2147483646 // straddles 2^31
				case 2:
					n = n<<32 + (1000 - n) // high word ascending, low word descending
				case 3:
					n = n*1000003 + 1
				}
				st.set(r, "stop_sequence", strconv.FormatInt(n, 10))
			}
		}
		collideKey := ""
		if c.Free("ids_and_sequences_collide_when_concatenated", 2) == 1 {
			collideKey = "/colliding"
			ren := map[string]string{"T1": "7", "T2": "71", "T3": "711"}
			for _, f := range []string{"trips.txt", "stop_times.txt", "frequencies.txt"} {
				t := m.t(f)
				for r := range t.Rows {
					if v, _ := t.get(r, "trip_id"); ren[v] != "" {
						t.set(r, "trip_id", ren[v])
					}
				}
			}
			st := m.t("stop_times.txt")
			n := map[string]int{}
			for r := range st.Rows {
				id, _ := st.get(r, "trip_id")
				k := n[id]
				n[id]++
				st.set(r, "stop_sequence", map[string][]string{"7": {"11", "12", "13", "110"}, "71": {"1", "2", "3", "10"}, "711": {"0", "1", "2", "3"}}[id][k%4])
			}
			c.Witness("colliding_id_and_sequence_texts")
		}
		spanKey := ""
		if c.Free("trips_span_more_than_12_hours", 2) == 1 {
			spanKey = "/long-span"
			// the k-th row of each trip (in sequence order) arrives at 06:00 + 7 h * k: consecutive rows of the
			// FILE may then lie more than half a day apart in either direction
			st := m.t("stop_times.txt")
			n := map[string]int{}
			for r := range st.Rows {
				id, _ := st.get(r, "trip_id")
				k := n[id]
				n[id]++
				st.set(r, "arrival_time", fmt.Sprintf("%02d:00:00", 6+7*k))
				st.set(r, "departure_time", fmt.Sprintf("%02d:10:00", 6+7*k))
			}
			c.Witness("trip_spanning_more_than_12_hours")
		}
		// one row may have neither an arrival nor a departure time (legal for non-timepoints; the
		// parser has no time to give it and leaves the row out): wherever that row lands, the other
		// rows must come out the same
		blankKey := ""
		if k := c.Free("row_without_times", len(d)+1); k > 0 {
			st := m.t("stop_times.txt")
			st.set(k-1, "arrival_time", "")
			st.set(k-1, "departure_time", "")
			blankKey = fmt.Sprintf("/no-times-row=%d", k-1)
			c.Witness("row_without_times")
		}
		perm := c.Perm("stop_times.row", len(d))
		permuteRows(m.t("stop_times.txt"), perm)
		identity := true
		interleaved := false
		for i, j := range perm {
			if i != j {
				identity = false
			}
		}
		st := m.t("stop_times.txt")
		seenDone := map[string]bool{}
		last := ""
		for r := range st.Rows {
			id, _ := st.get(r, "trip_id")
			if id != last {
				if seenDone[id] {
					interleaved = true
				}
				seenDone[last] = true
				last = id
			}
		}
		if interleaved {
			c.Witness("rows_of_different_trips_interleaved")
		}
		firstSeq, _ := m.t("stop_times.txt").get(0, "stop_sequence")
		_ = firstSeq
		c08Compare(c, m, "stop_times-row-order-irrelevant", fmt.Sprint(d)+seqRangeKey(m)+blankKey+spanKey+collideKey, !identity)
	}
}

// c08Sizes: a long trip (17..130 stop times) next to a short one, each block in ascending,
// descending, rotated or once-swapped order, long first or short first or interleaved: sizes at
// which slices are grown, pre-sized or shrunk.
var c08LongLens = []int{9, 16, 17, 18, 20, 33, 40, 52, 65, 70, 122, 130}
var c08Orders = []string{"ascending", "descending", "rotated", "one-swap"}

func c08Arrange(rows [][]string, seqCol int, order int) [][]string {
	out := append([][]string{}, rows...)
	sort.SliceStable(out, func(i, j int) bool {
		a, _ := strconv.ParseInt(out[i][seqCol], 10, 64)
		b, _ := strconv.ParseInt(out[j][seqCol], 10, 64)
		return a < b
	})
	switch order {
	case 1:
		for i, j := 0, len(out)-1; i < j; i, j = i+1, j-1 {
			out[i], out[j] = out[j], out[i]
		}
	case 2:
		out = append(out[1:], out[0])
	case 3:
		if len(out) >= 2 {
			k := len(out) / 2
			out[k-1], out[k] = out[k], out[k-1]
		}
	}
	return out
}

func c08Sizes(c *Ctx) {
	L := c08LongLens[c.Free("long_trip_rows", len(c08LongLens))]
	S := 2 + c.Free("short_trip_rows", 2)
	var d []int
	for i := 0; i < L; i++ {
		d = append(d, 0)
	}
	for i := 0; i < S; i++ {
		d = append(d, 1)
	}
	n := baseCounts
	n.trips = 2
	m := genStaticFeedN(c, false, n, d, nil)
	sameZone(m)
	st := m.t("stop_times.txt")
	seqCol := st.col("stop_sequence")
	lo, so := c.Free("long_trip_order", len(c08Orders)), c.Free("short_trip_order", len(c08Orders))
	long := c08Arrange(st.Rows[:L], seqCol, lo)
	short := c08Arrange(st.Rows[L:], seqCol, so)
	layout := c.Free("layout", 3)
	var rows [][]string
	switch layout {
	case 0:
		rows = append(append(rows, long...), short...)
	case 1:
		rows = append(append(rows, short...), long...)
	case 2: // the short trip's rows spread through the long one
		step := L / S
		for i, r := range long {
			rows = append(rows, r)
			if (i+1)%step == 0 && len(short) > 0 {
				rows = append(rows, short[0])
				short = short[1:]
			}
		}
		rows = append(rows, short...)
	}
	st.Rows = rows
	c.Witness("long_trip_next_to_short_trip")
	c08Compare(c, m, "stop_times-row-order-irrelevant", fmt.Sprintf("sizes %d+%d", L, S), lo+so+layout > 0)
}

// seqRangeKey identifies the set of sequence numbers of the feed (independent of row order).
func seqRangeKey(m *feedModel) string {
	st := m.t("stop_times.txt")
	var max int64
	for r := range st.Rows {
		v, _ := st.get(r, "stop_sequence")
		n, _ := strconv.ParseInt(v, 10, 64)
		if n > max {
			max = n
		}
	}
	return fmt.Sprint("/max-seq=", max)
}

func c08Shapes(tier string) Harness {
	dists := c08Dists[tier]
	return func(c *Ctx) {
		d := dists[c.Free("distribution", len(dists))]
		m := genStaticFeedN(c, false, baseCounts, nil, d)
		sameZone(m)
		// shape ids whose order by id differs from their order of appearance and whose lengths differ
		rename := map[string]string{"SH1": "b", "SH2": "a10", "SH3": "a9"}
		collide := c.Free("ids_and_sequences_collide_when_concatenated", 2) == 1
		if collide {
			// shape "7" with sequences 11, 12, 13 and shape "71" with sequences 1, 2, 3 (and "711" with 0..): the
			// texts id+sequence coincide ("711", "712", ...), the (id, sequence) pairs do not
			rename = map[string]string{"SH1": "7", "SH2": "71", "SH3": "711"}
			t := m.t("shapes.txt")
			n := map[string]int{}
			for r := range t.Rows {
				id, _ := t.get(r, "shape_id")
				k := n[id]
				n[id]++
				seq := map[string][]string{"SH1": {"11", "12", "13", "110"}, "SH2": {"1", "2", "3", "10"}, "SH3": {"0", "1", "2", "3"}}[id][k%4]
				t.set(r, "shape_pt_sequence", seq)
			}
			c.Witness("colliding_id_and_sequence_texts")
		}
		for _, f := range []string{"shapes.txt", "trips.txt"} {
			t := m.t(f)
			for r := range t.Rows {
				if v, _ := t.get(r, "shape_id"); rename[v] != "" {
					t.set(r, "shape_id", rename[v])
				}
			}
		}
		// geometry: a shape may pass through the same coordinates more than once (loop, out-and-back,
		// dwell); with no shape_dist_traveled the points are told apart by their sequence alone
		geometry := c.Free("geometry", 3)
		if geometry > 0 {
			t := m.t("shapes.txt")
			n := map[string]int{}
			for r := range t.Rows {
				id, _ := t.get(r, "shape_id")
				k := n[id]
				n[id]++
				if geometry == 2 || k%2 == 0 { // 1: every other point of a shape is the same place; 2: all of them
					t.set(r, "shape_pt_lat", "40.5")
					t.set(r, "shape_pt_lon", "-73.25")
				}
				t.set(r, "shape_dist_traveled", "")
			}
			c.Witness("shape_revisits_a_coordinate")
		}
		perm := c.Perm("shapes.row", len(d))
		permuteRows(m.t("shapes.txt"), perm)
		identity := true
		for i, j := range perm {
			if i != j {
				identity = false
			}
		}
		// shape ids whose id order differs from their first appearance
		if !identity {
			c.Witness("shape_rows_permuted")
		}
		c08Compare(c, m, "shapes-row-order-irrelevant", fmt.Sprint(d, collide, geometry), !identity)
	}
}

func c08OtherFile(file string, n staticCounts) Harness {
	return func(c *Ctx) {
		m := genStaticFeedN(c, false, n, nil, nil)
		sameZone(m)
		t := m.t(file)
		if file == "transfers.txt" && c.Free("one_more_row:a_transfer_from_a_stop_to_itself", 2) == 1 {
			// such a row yields no transfer; the others keep their file order around it
			row := append([]string{}, t.Rows[0]...)
			t.Rows = append(t.Rows, row)
			from, _ := t.get(0, "from_stop_id")
			t.set(len(t.Rows)-1, "to_stop_id", from)
			c.Witness("self_transfer_among_the_rows")
		}
		perm := c.Perm(file+".row", len(t.Rows))
		permuteRows(t, perm)
		identity := true
		for i, j := range perm {
			if i != j {
				identity = false
			}
		}
		if !identity {
			c.Witness("rows_permuted")
		}
		c08Compare(c, m, "", "", !identity)
	}
}

func init() {
	register(&Check{
		ID:    "C08",
		Level: "model_checking",
		Rule: "feeds with rows distributed over 2-3 trips / shapes (5 distributions of <=6 rows; thorough 6 distributions of <=8 rows), sequence numbers 2,10,100,0,33,... (text order != numeric order), ids 7 / 71 / 711 with sequences whose concatenation with the id collides, also shifted to straddle 2^31, spread beyond 2^32 and multiplied; ALL permutations of stop_times.txt rows (optionally one row without any time) and of shapes.txt rows (shapes optionally revisiting the same coordinates at every other point or at all points, without distances); a trip of 9..130 stop times next to one of 2-3, each in ascending / descending / rotated / once-swapped order, long first, short first or interleaved; ALL permutations of the rows of agency, routes, stops, transfers, calendar, calendar_dates, trips, frequencies (3-5 rows each); " +
			"non-trivial = distinct archives whose rows are not in identity order; oracles = reference interpretation + relation (feed up to row order -> dump)",
		Assumptions: []string{"all agencies share one zone in this check (the first agency legitimately determines the zone of every date)", "reference targets are named by id so that a permuted collection compares independent of indices"},
		Scenarios: func(tier string) []*Scenario {
			big := baseCounts
			big.agencies, big.routes, big.stops, big.transfers, big.calendars, big.calendarDates, big.trips, big.frequencies = 3, 3, 4, 3, 3, 4, 3, 4
			if tier == "thorough" {
				big.agencies, big.routes, big.stops, big.transfers, big.calendars, big.calendarDates, big.trips, big.frequencies = 4, 4, 5, 4, 4, 5, 4, 5
			}
			s := []*Scenario{{Name: "stop_times-permutations", Bound: -1, Run: c08StopTimes(tier)}, {Name: "shapes-permutations", Bound: -1, Run: c08Shapes(tier)}, {Name: "stop_times-sizes", Bound: -1, Run: c08Sizes}}
			for _, f := range []string{"agency.txt", "routes.txt", "stops.txt", "transfers.txt", "calendar.txt", "calendar_dates.txt", "trips.txt", "frequencies.txt"} {
				s = append(s, &Scenario{Name: "file-order/" + f, Bound: -1, Run: c08OtherFile(f, big)})
			}
			return s
		},
	})
}
