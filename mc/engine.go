package main

// E1: the choice explorer. A harness is a deterministic function of the choices it is
// given; the explorer enumerates every choice vector whose number of deviations (non-zero
// answers at non-free choice points) is within the bound, running the harness (and hence
// the real library code) to completion for every one of them.

import (
	"crypto/sha256"
	"encoding/json"
	"fmt"
	"hash/fnv"
	"os"
	"runtime/debug"
	"sort"
	"strings"
)

type Point struct {
	Label  string `json:"l"`
	N      int    `json:"n"`
	Free   bool   `json:"f,omitempty"`
	Chosen int    `json:"c"`
}

// harnessError is a bug in the checking machinery (replay divergence, impossible state):
// exit status 2, never a VIOLATION.
type harnessError struct{ msg string }

func harnessBug(format string, a ...interface{}) {
	panic(harnessError{fmt.Sprintf(format, a...)})
}

type Failure struct {
	Signature string `json:"signature"`
	Detail    string `json:"detail"`
}

// Ctx is handed to a harness for one execution.
type Ctx struct {
	Tier       string
	prefix     []int
	prefixLbls []string
	points     []Point

	failures    []Failure
	outcome     uint64
	hasOutcome  bool
	witnesses   map[string]int
	nontrivial  bool
	inputHash   uint64
	describe    func() string
	transitions int
	relates     []relate
	counters    map[string]int64
	// schedule/monitor data used by individual harnesses
	Scratch map[string]interface{}
}

type relate struct {
	name string
	a, b [16]byte
}

// Relate states that, over ALL executions of this run (across workers), the relation `name`
// must be a function: the same a may never be related to two different b. It is how
// cross-execution oracles (injectivity, metamorphic equality of whole equivalence classes)
// are decided without re-running anything.
func (c *Ctx) Relate(name string, a, b string) {
	c.relates = append(c.relates, relate{name, hash128(a), hash128(b)})
}

func hash128(s string) (out [16]byte) {
	h := sha256.Sum256([]byte(s))
	copy(out[:], h[:16])
	return
}

type relEntry struct {
	B        [16]byte
	Scenario string
	Choices  []uint16
}

func (c *Ctx) choose(label string, n int, free bool) int {
	if n <= 1 {
		return 0
	}
	i := len(c.points)
	v := 0
	if i < len(c.prefix) {
		v = c.prefix[i]
		if v >= n {
			harnessBug("replay divergence at point %d (%s): choice %d out of range %d", i, label, v, n)
		}
		if i < len(c.prefixLbls) && c.prefixLbls[i] != label {
			harnessBug("replay divergence at point %d: label %q, recorded %q", i, label, c.prefixLbls[i])
		}
	}
	c.points = append(c.points, Point{Label: label, N: n, Free: free, Chosen: v})
	return v
}

// Choose asks for one of n alternatives; 0 is the default, any other answer is a deviation.
func (c *Ctx) Choose(label string, n int) int { return c.choose(label, n, false) }

// Free asks for one of n alternatives none of which counts as a deviation (full product).
func (c *Ctx) Free(label string, n int) int { return c.choose(label, n, true) }

// Perm returns a permutation of 0..n-1 chosen through n-1 free choice points (Lehmer code);
// the default is the identity.
func (c *Ctx) Perm(label string, n int) []int {
	rest := make([]int, n)
	for i := range rest {
		rest[i] = i
	}
	out := make([]int, 0, n)
	for i := 0; i < n; i++ {
		k := c.Free(fmt.Sprintf("%s[%d]", label, i), len(rest))
		out = append(out, rest[k])
		rest = append(rest[:k], rest[k+1:]...)
	}
	return out
}

func (c *Ctx) Fail(signature, format string, a ...interface{}) {
	for _, f := range c.failures {
		if f.Signature == signature {
			return
		}
	}
	c.failures = append(c.failures, Failure{signature, fmt.Sprintf(format, a...)})
}

func (c *Ctx) Failed() bool { return len(c.failures) > 0 }

func hash64(s string) uint64 {
	h := fnv.New64a()
	h.Write([]byte(s))
	return h.Sum64()
}

// Outcome records the canonical result of this execution (for counting distinct outcomes).
func (c *Ctx) Outcome(s string) { c.outcome = hash64(s); c.hasOutcome = true }

// Input records the rendered input of this execution and whether it is non-trivial by the
// property's witness rule; describe is only evaluated for samples and violations.
func (c *Ctx) Input(hash uint64, nontrivial bool, describe func() string) {
	c.inputHash = hash
	c.nontrivial = nontrivial
	c.describe = describe
}

func (c *Ctx) Witness(name string) {
	if c.witnesses == nil {
		c.witnesses = map[string]int{}
	}
	c.witnesses[name]++
}

// Count adds n to a named counter reported in the evidence (e.g. abstract states of a BFS).
func (c *Ctx) Count(name string, n int64) {
	if c.counters == nil {
		c.counters = map[string]int64{}
	}
	c.counters[name] += n
}

// Steps adds to the transition count (library-level steps taken in this execution).
func (c *Ctx) Steps(n int) { c.transitions += n }

type Harness func(c *Ctx)

// Scenario is one independently explorable harness with its deviation bound.
type Scenario struct {
	Name  string
	Bound int // maximum number of deviations; <0 means unbounded
	Run   Harness
}

type ViolationRec struct {
	Property  string   `json:"property"`
	Scenario  string   `json:"scenario"`
	Tier      string   `json:"tier"`
	Signature string   `json:"signature"`
	Detail    string   `json:"detail"`
	Choices   []int    `json:"choices"`
	Labels    []string `json:"labels"`
	Input     string   `json:"input"`
	Count     int      `json:"count"`
	// for violations of a cross-execution relation: the earlier execution it conflicts with
	Scenario2 string `json:"scenario2,omitempty"`
	Choices2  []int  `json:"choices2,omitempty"`
	// further executions with the same signature (a few), tried when the representative does not
	// reproduce in a fresh process (race verdicts can depend on what the process did before)
	Alts [][]int `json:"alts,omitempty"`
}

type Sample struct {
	Scenario string `json:"scenario"`
	Choices  string `json:"choices"`
	Input    string `json:"input"`
}

// Stats is what one worker (or the master's expansion phase) measured.
type Stats struct {
	Executions     int64                             `json:"executions"`
	Points         int64                             `json:"points"`
	Transitions    int64                             `json:"transitions"`
	MaxDepth       int                               `json:"max_depth"`
	MaxDevs        int                               `json:"max_devs"`
	Nontrivial     int64                             `json:"nontrivial"`
	Witnesses      map[string]int64                  `json:"witnesses"`
	Violations     map[string]*ViolationRec          `json:"violations"`
	Samples        []Sample                          `json:"samples"`
	Outcomes       map[uint64]struct{}               `json:"-"`
	Inputs         map[uint64]struct{}               `json:"-"`
	OutcomesCapped bool                              `json:"outcomes_capped"`
	PerScenario    map[string]int64                  `json:"per_scenario"`
	TimedOut       bool                              `json:"timed_out"`
	Uncontrolled   int64                             `json:"uncontrolled_maps"`
	Counters       map[string]int64                  `json:"counters"`
	Relations      map[string]map[[16]byte]*relEntry `json:"-"`
	RelationPairs  int64                             `json:"relation_pairs"`
}

const setCap = 3000000

func newStats() *Stats {
	return &Stats{Counters: map[string]int64{}, Witnesses: map[string]int64{}, Violations: map[string]*ViolationRec{},
		Outcomes: map[uint64]struct{}{}, Inputs: map[uint64]struct{}{}, PerScenario: map[string]int64{},
		Relations: map[string]map[[16]byte]*relEntry{}}
}

func (s *Stats) merge(o *Stats) {
	s.Executions += o.Executions
	s.Points += o.Points
	s.Transitions += o.Transitions
	s.Nontrivial += o.Nontrivial
	s.Uncontrolled += o.Uncontrolled
	if o.MaxDepth > s.MaxDepth {
		s.MaxDepth = o.MaxDepth
	}
	if o.MaxDevs > s.MaxDevs {
		s.MaxDevs = o.MaxDevs
	}
	for k, v := range o.Witnesses {
		s.Witnesses[k] += v
	}
	for k, v := range o.Counters {
		s.Counters[k] += v
	}
	for k, v := range o.PerScenario {
		s.PerScenario[k] += v
	}
	for k, v := range o.Violations {
		if e, ok := s.Violations[k]; ok {
			e.Count += v.Count
			alts := append(e.Alts, v.Alts...)
			if len(alts) > 12 {
				alts = alts[:12]
			}
			if lessChoices(v.Choices, e.Choices) {
				cnt := e.Count
				*e = *v
				e.Count = cnt
			}
			e.Alts = alts
		} else {
			s.Violations[k] = v
		}
	}
	s.RelationPairs += o.RelationPairs
	for name, m := range o.Relations {
		for a, e := range m {
			s.relateOne("", "", name, a, e)
		}
	}
	for k := range o.Outcomes {
		if len(s.Outcomes) < setCap {
			s.Outcomes[k] = struct{}{}
		} else {
			s.OutcomesCapped = true
		}
	}
	for k := range o.Inputs {
		if len(s.Inputs) < setCap {
			s.Inputs[k] = struct{}{}
		} else {
			s.OutcomesCapped = true
		}
	}
	s.OutcomesCapped = s.OutcomesCapped || o.OutcomesCapped
	s.TimedOut = s.TimedOut || o.TimedOut
	s.Samples = append(s.Samples, o.Samples...)
}

func toU16(a []int) []uint16 {
	out := make([]uint16, len(a))
	for i, v := range a {
		out[i] = uint16(v)
	}
	return out
}

func fromU16(a []uint16) []int {
	out := make([]int, len(a))
	for i, v := range a {
		out[i] = int(v)
	}
	return out
}

// relateOne inserts a -> e into relation name; a conflicting earlier entry is a violation.
func (s *Stats) relateOne(prop, tier, name string, a [16]byte, e *relEntry) {
	m := s.Relations[name]
	if m == nil {
		m = map[[16]byte]*relEntry{}
		s.Relations[name] = m
	}
	old, ok := m[a]
	if !ok {
		m[a] = e
		return
	}
	if old.B == e.B {
		return
	}
	key := "relation|" + name
	if v, ok := s.Violations[key]; ok {
		v.Count++
		return
	}
	s.Violations[key] = &ViolationRec{Property: prop, Scenario: e.Scenario, Tier: tier, Signature: "relation:" + name,
		Detail:  "two executions that must agree under relation " + name + " do not (see choices and choices2)",
		Choices: fromU16(e.Choices), Scenario2: old.Scenario, Choices2: fromU16(old.Choices), Count: 1}
}

// lessChoices orders choice vectors by (number of non-zero entries, length, lexicographic):
// the representative kept for a signature is the simplest one found.
func lessChoices(a, b []int) bool {
	na, nb := 0, 0
	for _, v := range a {
		if v != 0 {
			na++
		}
	}
	for _, v := range b {
		if v != 0 {
			nb++
		}
	}
	if na != nb {
		return na < nb
	}
	if len(a) != len(b) {
		return len(a) < len(b)
	}
	for i := range a {
		if a[i] != b[i] {
			return a[i] < b[i]
		}
	}
	return false
}

type Explorer struct {
	Property string
	Tier     string
	Stats    *Stats
	deadline func() bool // true when the internal time cap has been reached
	current  *[]int      // choice vector of the execution in progress (for the watchdog)
	progress *int64
}

type execResult struct {
	points []Point
	ctx    *Ctx
}

// runOnce executes the harness with the given prefix; panics of the code under test must be
// caught by the harness itself (guard()), anything arriving here is a harness bug.
func (e *Explorer) runOnce(sc *Scenario, prefix []int, labels []string) *Ctx {
	c := &Ctx{Tier: e.Tier, prefix: prefix, prefixLbls: labels}
	if e.current != nil {
		*e.current = prefix
	}
	mapHookBegin(c)
	func() {
		defer mapHookEnd()
		defer func() {
			if r := recover(); r != nil {
				if he, ok := r.(harnessError); ok {
					panic(he)
				}
				// The oracle itself panicked after the code under test returned (harnesses guard the
				// library calls). On the unchanged tree this never happens; when it does, the library
				// returned something the oracle's own invariants exclude (e.g. it changed an object
				// the oracle was walking), which is reported rather than swallowed.
				c.Fail("oracle-panic:"+digitsRe.ReplaceAllString(fmt.Sprint(r), "N"), "the check's oracle panicked on what the library returned: %v\n%s", r, debug.Stack())
			}
		}()
		sc.Run(c)
	}()
	if len(c.points) < len(prefix) {
		harnessBug("replay divergence: prefix has %d choices, execution asked for %d (%s/%s)", len(prefix), len(c.points), e.Property, sc.Name)
	}
	return c
}

func choicesOf(points []Point) []int {
	out := make([]int, len(points))
	for i, p := range points {
		out[i] = p.Chosen
	}
	return out
}

func labelsOf(points []Point) []string {
	out := make([]string, len(points))
	for i, p := range points {
		out[i] = p.Label
	}
	return out
}

func fmtChoices(points []Point) string {
	var sb strings.Builder
	for _, p := range points {
		if p.Chosen != 0 {
			fmt.Fprintf(&sb, "%s=%d ", p.Label, p.Chosen)
		}
	}
	if sb.Len() == 0 {
		return "(all defaults)"
	}
	return strings.TrimSpace(sb.String())
}

func (e *Explorer) account(sc *Scenario, c *Ctx, devs int) {
	s := e.Stats
	s.Executions++
	s.PerScenario[sc.Name]++
	s.Points += int64(len(c.points))
	s.Transitions += int64(c.transitions)
	s.Uncontrolled += int64(uncontrolledMaps)
	uncontrolledMaps = 0
	if len(c.points) > s.MaxDepth {
		s.MaxDepth = len(c.points)
	}
	if devs > s.MaxDevs {
		s.MaxDevs = devs
	}
	for k, v := range c.witnesses {
		if v > 0 {
			s.Witnesses[k]++
		}
	}
	for k, v := range c.counters {
		s.Counters[k] += v
	}
	if c.hasOutcome {
		if len(s.Outcomes) < setCap {
			s.Outcomes[c.outcome] = struct{}{}
		} else {
			s.OutcomesCapped = true
		}
	}
	if c.nontrivial {
		s.Nontrivial++
		if len(s.Inputs) < setCap {
			s.Inputs[c.inputHash] = struct{}{}
		} else {
			s.OutcomesCapped = true
		}
	}
	n := s.Executions
	if n == 1 || (n&(n-1)) == 0 && n >= 64 && len(s.Samples) < 12 {
		in := ""
		if c.describe != nil {
			in = c.describe()
		}
		if len(in) > 1500 {
			in = in[:1500] + "…"
		}
		s.Samples = append(s.Samples, Sample{sc.Name, fmtChoices(c.points), in})
	}
	for _, r := range c.relates {
		s.RelationPairs++
		s.relateOne(e.Property, e.Tier, r.name, r.a, &relEntry{B: r.b, Scenario: sc.Name, Choices: toU16(choicesOf(c.points))})
	}
	for _, f := range c.failures {
		key := sc.Name + "|" + f.Signature
		ch := choicesOf(c.points)
		if v, ok := s.Violations[key]; ok {
			v.Count++
			if len(v.Alts) < 8 {
				v.Alts = append(v.Alts, ch)
			}
			if !lessChoices(ch, v.Choices) {
				continue
			}
		}
		in := ""
		if c.describe != nil {
			in = c.describe()
		}
		cnt := 1
		var alts [][]int
		if v, ok := s.Violations[key]; ok {
			cnt = v.Count
			alts = v.Alts
		}
		defer func(key string, alts [][]int) { s.Violations[key].Alts = alts }(key, alts)
		s.Violations[key] = &ViolationRec{Property: e.Property, Scenario: sc.Name, Tier: e.Tier, Signature: f.Signature,
			Detail: f.Detail, Choices: ch, Labels: labelsOf(c.points), Input: in, Count: cnt}
	}
}

type node struct {
	prefix []int
	labels []string
	devs   int
}

// children returns the not-yet-explored alternatives below an executed node.
func (e *Explorer) children(sc *Scenario, n node, c *Ctx) []node {
	var out []node
	ch := choicesOf(c.points)
	lb := labelsOf(c.points)
	for i := len(n.prefix); i < len(c.points); i++ {
		p := c.points[i]
		nd := n.devs
		if !p.Free {
			nd++
		}
		if sc.Bound >= 0 && nd > sc.Bound {
			continue
		}
		for alt := 1; alt < p.N; alt++ {
			pre := make([]int, i+1)
			copy(pre, ch[:i])
			pre[i] = alt
			out = append(out, node{pre, lb[:i+1], nd})
		}
	}
	return out
}

// exploreSubtree runs node n and everything below it (depth-first, explicit stack).
func (e *Explorer) exploreSubtree(sc *Scenario, root node) {
	stack := []node{root}
	for len(stack) > 0 {
		if e.deadline != nil && e.deadline() {
			e.Stats.TimedOut = true
			return
		}
		n := stack[len(stack)-1]
		stack = stack[:len(stack)-1]
		c := e.runOnce(sc, n.prefix, n.labels)
		e.account(sc, c, n.devs)
		if e.progress != nil {
			*e.progress++
		}
		kids := e.children(sc, n, c)
		// push in reverse so that the simplest alternatives are explored first
		for i := len(kids) - 1; i >= 0; i-- {
			stack = append(stack, kids[i])
		}
	}
}

// expand runs nodes breadth-first (shallowest prefix first) until at least target open
// subtrees exist; it returns the open subtrees (not yet executed).
func (e *Explorer) expand(scs []*Scenario, target int) []workItem {
	type qn struct {
		sc int
		n  node
	}
	var queue []qn
	for i := range scs {
		queue = append(queue, qn{i, node{}})
	}
	executed := 0
	for len(queue) > 0 && len(queue) < target && executed < 4*target {
		// pick the node with the shortest prefix (stable)
		best := 0
		for i := range queue {
			if len(queue[i].n.prefix) < len(queue[best].n.prefix) {
				best = i
			}
		}
		q := queue[best]
		queue = append(queue[:best], queue[best+1:]...)
		c := e.runOnce(scs[q.sc], q.n.prefix, q.n.labels)
		e.account(scs[q.sc], c, q.n.devs)
		executed++
		for _, k := range e.children(scs[q.sc], q.n, c) {
			queue = append(queue, qn{q.sc, k})
		}
	}
	items := make([]workItem, len(queue))
	for i, q := range queue {
		items[i] = workItem{Scenario: q.sc, Prefix: q.n.prefix, Labels: q.n.labels, Devs: q.n.devs}
	}
	// big subtrees (short prefixes) first
	sort.SliceStable(items, func(i, j int) bool { return len(items[i].Prefix) < len(items[j].Prefix) })
	return items
}

type workItem struct {
	Scenario int      `json:"s"`
	Prefix   []int    `json:"p"`
	Labels   []string `json:"l"`
	Devs     int      `json:"d"`
}

func mustJSON(v interface{}) []byte {
	b, err := json.Marshal(v)
	if err != nil {
		harnessBug("json: %v", err)
	}
	return b
}

// guard runs f (code under test) and converts a panic into a description: the innermost
// repository frame, the panic text and the full stack.
func guard(f func()) (panicked bool, where, text, stack string) {
	defer func() {
		if r := recover(); r != nil {
			if he, ok := r.(harnessError); ok {
				panic(he)
			}
			panicked = true
			text = fmt.Sprint(r)
			stack = string(debug.Stack())
			where = innermostRepoFrame(stack)
		}
	}()
	f()
	return
}

func innermostRepoFrame(stack string) string {
	lines := strings.Split(stack, "\n")
	seenPanic := false
	for _, l := range lines {
		if strings.HasPrefix(l, "panic(") {
			seenPanic = true
			continue
		}
		if !seenPanic {
			continue
		}
		if strings.HasPrefix(l, "github.com/jamespfennell/gtfs") {
			name := l
			if i := strings.LastIndex(name, "("); i > 0 {
				name = name[:i]
			}
			name = strings.TrimPrefix(name, "github.com/jamespfennell/gtfs")
			name = strings.TrimPrefix(name, "/")
			name = strings.TrimPrefix(name, ".")
			return name
		}
	}
	return "?"
}

var origStderr *os.File

func fatalf(format string, a ...interface{}) {
	w := os.Stderr
	if origStderr != nil {
		w = origStderr
	}
	fmt.Fprintf(w, "HARNESS ERROR: "+format+"\n", a...)
	os.Exit(2)
}
