package main

// C10 - blank = absent = GTFS default; fill-in and inheritance rules.
//
// Enumerated: the base feed x every default-bearing optional column x spelling {as written,
// column omitted, blank in all rows, blank in the first row only, blank in the last row only,
// explicit default in all rows}, k columns at a time (quick 2, thorough 3); one-sided
// arrival/departure in every stop_times row and with either column omitted; the inheritance
// product: option {off,on} x parent type {station, stop, entrance} x parent value {0,1,2} x
// two children each {0,1,2,blank} or the column absent, children before/after the parent.
// Oracle: reference interpretation with the GTFS reference defaults (refStatic).

import (
	"fmt"

	"github.com/jamespfennell/gtfs"
)

type defaultCol struct {
	file, col, def string
	// vals: legal values the column may be given in every row (one deviation), so that a default
	// that wrongly depends on a neighbouring column's value, or on the value of another row, shows
	vals []string
}

var enum03 = []string{"0", "1", "2", "3"}
var enum02 = []string{"0", "1", "2"}

var defaultCols = []defaultCol{
	{"routes.txt", "route_color", "FFFFFF", []string{"000000", "FFFFFF", "00FF00"}}, {"routes.txt", "route_text_color", "000000", []string{"FFFFFF", "000000", "FF00FF"}},
	{"routes.txt", "continuous_pickup", "1", enum03}, {"routes.txt", "continuous_drop_off", "1", enum03},
	{"stops.txt", "location_type", "0", nil}, {"stops.txt", "wheelchair_boarding", "0", enum02},
	{"transfers.txt", "transfer_type", "0", enum03},
	{"trips.txt", "direction_id", "", []string{"0", "1"}}, {"trips.txt", "wheelchair_accessible", "0", enum02}, {"trips.txt", "bikes_allowed", "0", enum02},
	{"frequencies.txt", "exact_times", "0", []string{"0", "1"}},
	{"stop_times.txt", "pickup_type", "0", enum03}, {"stop_times.txt", "drop_off_type", "0", enum03}, {"stop_times.txt", "continuous_pickup", "1", enum03}, {"stop_times.txt", "continuous_drop_off", "1", enum03},
	{"stop_times.txt", "timepoint", "1", []string{"0", "1"}},
}

var spellingNames = []string{"as-written", "column-omitted", "blank-all-rows", "blank-first-row", "blank-last-row", "explicit-default"}

func applySpelling(t *table, col string, spelling int, def string) {
	switch spelling {
	case 1:
		t.dropCol(col)
	case 2:
		for r := range t.Rows {
			t.set(r, col, "")
		}
	case 3:
		t.set(0, col, "")
	case 4:
		t.set(len(t.Rows)-1, col, "")
	case 5:
		for r := range t.Rows {
			t.set(r, col, def)
		}
	}
}

func c10Defaults(c *Ctx) {
	m := genStaticFeed(c, false)
	// all trips run in one block on one service (one vehicle, as far as the feed says): a trip's blank
	// cell is still the default, whatever its neighbours in the block say
	if tr := m.t("trips.txt"); len(tr.Rows) > 0 {
		svc, _ := tr.get(0, "service_id")
		for r := range tr.Rows {
			tr.set(r, "block_id", "BLK")
			tr.set(r, "service_id", svc)
		}
	}
	var applied []string
	var valued []string
	for _, dc := range defaultCols {
		if len(dc.vals) == 0 {
			continue
		}
		if k := c.Choose(dc.file+":"+dc.col+".value-in-every-row", len(dc.vals)+1); k > 0 {
			t := m.t(dc.file)
			for r := range t.Rows {
				t.set(r, dc.col, dc.vals[k-1])
			}
			valued = append(valued, fmt.Sprintf("%s:%s:=%s", dc.file, dc.col, dc.vals[k-1]))
		}
	}
	for _, dc := range defaultCols {
		sp := c.Choose(dc.file+":"+dc.col, len(spellingNames))
		if sp != 0 {
			if dc.col == "direction_id" && sp == 5 {
				sp = 2 // direction has no explicit default digit: unspecified is spelled blank
			}
			applySpelling(m.t(dc.file), dc.col, sp, dc.def)
			applied = append(applied, fmt.Sprintf("%s:%s=%s", dc.file, dc.col, spellingNames[sp]))
		}
	}
	// one-sided arrival / departure
	st := m.t("stop_times.txt")
	for r := range st.Rows {
		switch c.Choose(fmt.Sprintf("stop_times[%d].times", r), 7) {
		case 1:
			st.set(r, "departure_time", "")
			applied = append(applied, fmt.Sprintf("stop_times[%d]:arrival-only", r))
		case 2:
			st.set(r, "arrival_time", "")
			applied = append(applied, fmt.Sprintf("stop_times[%d]:departure-only", r))
		case 3: // midnight is a time like any other
			st.set(r, "arrival_time", "00:00:00")
			st.set(r, "departure_time", "")
			applied = append(applied, fmt.Sprintf("stop_times[%d]:arrival-only at 00:00:00", r))
		case 4:
			st.set(r, "arrival_time", "")
			st.set(r, "departure_time", "0:00:00")
			applied = append(applied, fmt.Sprintf("stop_times[%d]:departure-only at 0:00:00", r))
		case 5:
			st.set(r, "arrival_time", "00:00:00")
			applied = append(applied, fmt.Sprintf("stop_times[%d]:arrival at 00:00:00, departure later", r))
		case 6:
			st.set(r, "arrival_time", "00:00:00")
			st.set(r, "departure_time", "00:00:00")
			applied = append(applied, fmt.Sprintf("stop_times[%d]:both at 00:00:00", r))
		}
	}
	switch c.Choose("stop_times.time_column_omitted", 3) {
	case 1:
		st.dropCol("departure_time")
		applied = append(applied, "stop_times:departure_time-column-omitted")
	case 2:
		st.dropCol("arrival_time")
		applied = append(applied, "stop_times:arrival_time-column-omitted")
	}
	inherit := c.Choose("inherit_wheelchair_boarding", 2) == 1
	if len(applied) > 0 && len(valued) > 0 {
		c.Witness("default_next_to_chosen_neighbour_value")
	}
	c10Compare(c, m, inherit, append(applied, valued...))
}

func c10Compare(c *Ctx, m *feedModel, inherit bool, applied []string) {
	b := renderFeed(m, presentation{})
	c.Input(hash64(string(b)+fmt.Sprint(inherit)), len(applied) > 0, func() string { return fmt.Sprintf("inherit=%v %v\n%s", inherit, applied, m.text()) })
	r, err, ok := parseStaticGuarded(c, b, gtfs.ParseStaticOptions{InheritWheelchairBoarding: inherit})
	if !ok {
		return
	}
	c.Steps(len(m.Tables))
	if err != nil {
		c.Fail("valid-feed-rejected", "%v", err)
		return
	}
	want := refStatic(m, refStaticOpts{inherit: inherit})
	o := staticDumpOpts{sortServices: true}
	wd, gd := dumpStatic(want, o), dumpStatic(r, o)
	c.Outcome(gd)
	if wd != gd {
		c.Fail(c10Signature(wd, gd, applied), "result differs from the GTFS defaults / fill-in rules (%v)\n%s", applied, diffLines(wd, gd))
	}
}

// c10Signature names the first differing field of the first differing line together with
// how the input spelled it, e.g. "default:Route.color/blank".
func c10Signature(want, got string, applied []string) string {
	kind := firstDiffKind(want, got)
	field := firstDiffField(want, got)
	how := "explicit"
	if len(applied) > 0 {
		how = ""
		for _, a := range applied {
			// keep only the spelling class, not the row
			switch {
			case containsAny(a, "column-omitted"):
				how += "+absent"
			case containsAny(a, "blank"):
				how += "+blank"
			case containsAny(a, "arrival-only"):
				how += "+arrival-only"
			case containsAny(a, "departure-only"):
				how += "+departure-only"
			case containsAny(a, "explicit-default"):
				how += "+explicit-default"
			}
		}
	}
	_ = how
	return "default:" + kind + "." + field
}

func c10Inheritance(c *Ctx) {
	m := genStaticFeed(c, false)
	st := m.t("stops.txt")
	inherit := c.Free("inherit_wheelchair_boarding", 2) == 1
	parentType := []string{"1", "0", "2", ""}[c.Free("parent.location_type", 4)]
	parentWB := []string{"1", "2", "0", ""}[c.Free("parent.wheelchair_boarding", 4)]
	childVals := []string{"", "0", "1", "2"}
	c1 := childVals[c.Free("child1.wheelchair_boarding", 4)]
	c2 := childVals[c.Free("child2.wheelchair_boarding", 4)]
	c2Parent := c.Free("child2.parent", 3) // 0 the station, 1 none, 2 child1 (a platform: NOT a station)
	c2HasParent := c2Parent == 0
	colAbsent := c.Free("wheelchair_boarding_column_absent", 2) == 1
	parentFirst := c.Free("parent_row_first", 2) == 0
	// the children may leave every optional cell blank while the station fills them in: the option
	// copies wheelchair boarding and nothing else
	childrenBlank := c.Free("children_leave_optional_cells_blank", 2) == 1
	// rows of the base: S1 (station), S2 (child of S1), S3
	pr, c1r, c2r := 0, 1, 2
	st.set(pr, "location_type", parentType)
	st.set(pr, "wheelchair_boarding", parentWB)
	st.set(pr, "parent_station", "")
	pid, _ := st.get(pr, "stop_id")
	st.set(c1r, "wheelchair_boarding", c1)
	st.set(c1r, "parent_station", pid)
	c1Type := []string{"0", "2", "3", ""}[c.Free("child1.location_type", 4)] // platform, entrance, generic node, blank
	st.set(c1r, "location_type", c1Type)
	st.set(c2r, "wheelchair_boarding", c2)
	st.set(c2r, "location_type", "")
	if c2HasParent {
		st.set(c2r, "parent_station", pid)
	} else {
		st.set(c2r, "parent_station", "")
	}
	if c2Parent == 2 {
		c1id, _ := st.get(c1r, "stop_id")
		st.set(c2r, "parent_station", c1id)
		st.set(c2r, "location_type", "4") // a boarding area whose parent is a platform
	}
	if childrenBlank {
		for _, r := range []int{c1r, c2r} {
			for _, col := range []string{"stop_code", "stop_desc", "zone_id", "stop_url", "stop_timezone", "platform_code", "stop_lon", "stop_lat"} {
				st.set(r, col, "")
			}
		}
	}
	if !parentFirst {
		st.Rows[0], st.Rows[1] = st.Rows[1], st.Rows[0]
		// stop ids are referenced from other tables by value, row order is free
	}
	if colAbsent {
		st.dropCol("wheelchair_boarding")
	}
	applied := []string{fmt.Sprintf("parent{type=%q wb=%q} child1.wb=%q child2.wb=%q child2Parent=%d colAbsent=%v parentFirst=%v childrenBlank=%v child1Type=%q", parentType, parentWB, c1, c2, c2Parent, colAbsent, parentFirst, childrenBlank, c1Type)}
	if inherit && parentType == "1" && (c1 == "" || c1 == "0") {
		c.Witness("inheritance_applies")
	}
	c10Compare(c, m, inherit, applied)
}

func init() {
	register(&Check{
		ID:    "C10",
		Level: "model_checking",
		Rule: "base feed (all trips in one block on one service) x 16 default-bearing optional columns x 6 spellings (as written / column omitted / blank everywhere / blank first row / blank last row / explicit default), each default-bearing column given each of its legal values in every row (000000 / FFFFFF colours, every enum digit), one-sided arrival or departure per stop_times row (also exactly at 00:00:00), either time column omitted, inheritance option; k deviations at a time (quick 2, thorough 4); plus the full inheritance product (option x parent type x parent value x two children's values x first child's location type {0, 2, 3, blank} x second child's parent {station, none, the first child (three levels)} x column absent x row order x children with every optional cell blank = 49 152); " +
			"non-trivial = distinct feeds with at least one non-explicit spelling; oracle = reference interpretation with the GTFS reference defaults",
		Assumptions: []string{"defaults are those of the GTFS schedule reference: route_color FFFFFF, route_text_color 000000, pickup/drop_off 0, continuous_* 1, timepoint 1, transfer_type 0, exact_times 0, wheelchair/bikes 0, location_type 0"},
		Scenarios: func(tier string) []*Scenario {
			k := 2
			if tier == "thorough" {
				k = 4
			}
			return []*Scenario{{Name: "defaults", Bound: k, Run: c10Defaults}, {Name: "inheritance", Bound: -1, Run: c10Inheritance}}
		},
	})
}
