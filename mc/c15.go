package main

// C15 - one correctly accounted journal entry per assigned trip in the window.
//
// Enumerated (histories x configurations): three trip identities - T1 and T2 share the start
// instant and the id suffix but not the 6-digit prefix (one journal entry), T3 has the same id
// suffix scheme but another suffix and start instant - each per feed in {absent, unassigned,
// vehicle v1, vehicle v2}: 64 feed symbols; EVERY history of <= 3 feeds (thorough <= 4) x 5
// windows (everything, nothing, exactly [start,start], ending 1 s before, starting 1 s after).
// Oracle: a reference accountant written from the statement (entries by (start instant, id
// suffix); applied-update counter; last applied time; marked-past = time of the first later
// feed without the trip; updates without a vehicle ignored once assigned), compared field by
// field with the output, which must be sorted by UID without duplicates.

import (
	"fmt"
	"sort"
	"strings"
	"time"

	"github.com/jamespfennell/gtfs"
	"github.com/jamespfennell/gtfs/journal"
)

type c15Ident struct {
	id, route string
	dir       gtfs.DirectionID
	startDate time.Time
	startTime time.Duration
}

var c15S1 = time.Unix(1700000000, 0).UTC()

var c15Idents = []c15Ident{
	{"063000_L..N01", "L", gtfs.DirectionID_True, c15S1.Add(-6*time.Hour - 30*time.Minute), 6*time.Hour + 30*time.Minute},
	{"070000_L..N01", "LX", gtfs.DirectionID_False, c15S1.Add(-7 * time.Hour), 7 * time.Hour},
	{"063000_6..S02", "6", gtfs.DirectionID_Unspecified, c15S1.Add(-5*time.Hour - 30*time.Minute), 6*time.Hour + 30*time.Minute},
	// the same trip id and start date as T1 but another start time (a second run of a
	// frequency-based trip): another start instant, hence another entry
	{"063000_L..N01", "L", gtfs.DirectionID_True, c15S1.Add(-6*time.Hour - 30*time.Minute), 6*time.Hour + 45*time.Minute},
}

// c15DirIn: the direction an identity carries in feed k: its own in feed 0, then Unspecified, then the
// opposite, ...: the entry carries the direction of the last applied update, whichever value that is
func c15DirIn(id c15Ident, k int) gtfs.DirectionID {
	return []gtfs.DirectionID{id.dir, gtfs.DirectionID_Unspecified, gtfs.DirectionID_True, gtfs.DirectionID_False}[k%4]
}

func (i c15Ident) start() time.Time { return i.startDate.Add(i.startTime) }
func (i c15Ident) uid() string      { return fmt.Sprintf("%d%s", i.start().Unix(), i.id[6:]) }

type c15Entry struct {
	uid, tripID, route, vehicle string
	dir                         gtfs.DirectionID
	start                       time.Time
	assigned                    bool
	lastObserved                time.Time
	markedPast                  *time.Time
	numUpdates                  int
	present                     bool // in the previous feed
	// the one stop (A) of the trip's update lists
	stopSeen   bool
	stopLast   time.Time
	stopMarked *time.Time
}

func (e *c15Entry) String() string {
	s := fmt.Sprintf("uid=%q id=%q route=%q dir=%s start=%s vehicle=%q lastObserved=%s markedPast=%s updates=%d", e.uid, e.tripID, e.route, e.dir,
		fmtTime(e.start), e.vehicle, fmtTime(e.lastObserved), fmtTimePtr(e.markedPast), e.numUpdates)
	if !e.stopSeen {
		return s + " stop[A]{none}"
	}
	return s + fmt.Sprintf(" stop[A]{lastObserved=%s markedPast=%s}", fmtTime(e.stopLast), fmtTimePtr(e.stopMarked))
}

func c15Feed(k int, states [4]int) *gtfs.Realtime {
	t := c14FeedTime(k)
	f := &gtfs.Realtime{CreatedAt: t}
	for i, st := range states {
		if st == 0 {
			continue
		}
		id := c15Idents[i]
		stop := "A"
		arr := time.Unix(int64(c14T0+60*k+1000+i), 0).UTC()
		// the same start date is carried in another *time.Location from feed to feed (ParseRealtime
		// callers may pass a freshly loaded zone per call): the instant is what identifies the trip
		startDate := id.startDate
		switch k % 3 {
		case 1:
			startDate = startDate.In(time.FixedZone("alt", 3600))
		case 2:
			startDate = startDate.Local()
		}
		trip := gtfs.Trip{ID: gtfs.TripID{ID: id.id, RouteID: id.route, DirectionID: c15DirIn(id, k), HasStartDate: true, StartDate: startDate, HasStartTime: true, StartTime: id.startTime},
			StopTimeUpdates: []gtfs.StopTimeUpdate{{StopID: &stop, Arrival: &gtfs.StopTimeEvent{Time: &arr}}}, IsEntityInMessage: true}
		if st >= 2 {
			trip.Vehicle = &gtfs.Vehicle{ID: &gtfs.VehicleID{ID: c15VehicleOf(st)}}
		}
		if st == 5 {
			trip.Vehicle = &gtfs.Vehicle{} // seen with a vehicle that carries no id at all
		}
		if st == 4 {
			trip.StopTimeUpdates = nil // seen with a vehicle, but the update lists no stop
		}
		f.Trips = append(f.Trips, trip)
	}
	return f
}

// c15Reference is the accountant: it processes the history and returns all entries by UID.
func c15Reference(history [][4]int) map[string]*c15Entry {
	entries := map[string]*c15Entry{}
	for k, states := range history {
		t := c14FeedTime(k)
		now := map[string]bool{}
		for i, st := range states {
			if st == 0 {
				continue
			}
			id := c15Idents[i]
			e := entries[id.uid()]
			if e == nil {
				e = &c15Entry{uid: id.uid()}
				entries[id.uid()] = e
			}
			now[id.uid()] = true
			hasVehicle := st >= 2
			if e.assigned && !hasVehicle {
				continue // ignored: recorded data unchanged
			}
			e.tripID, e.route, e.dir, e.start = id.id, id.route, c15DirIn(id, k), id.start()
			e.vehicle = ""
			if hasVehicle {
				e.vehicle = c15VehicleOf(st)
				e.assigned = true
			}
			e.lastObserved = t
			e.markedPast = nil
			e.numUpdates++
			if st == 4 {
				// an update without stops: every recorded stop is no longer reported
				if e.stopSeen && e.stopMarked == nil {
					tt := t
					e.stopMarked = &tt
				}
			} else {
				e.stopSeen, e.stopLast, e.stopMarked = true, t, nil
			}
		}
		for uid, e := range entries {
			if e.present && !now[uid] {
				if e.markedPast == nil {
					tt := t
					e.markedPast = &tt
				}
				if e.stopSeen && e.stopMarked == nil {
					tt := t
					e.stopMarked = &tt
				}
			}
			e.present = now[uid]
		}
	}
	return entries
}

func c15VehicleOf(state int) string {
	if state == 3 {
		return "v2"
	}
	if state == 5 {
		return ""
	}
	return "v1" // states 2 and 4
}

type c15Window struct {
	name       string
	start, end time.Time
}

var c15Windows = []c15Window{
	{"everything", farPast, farFuture},
	{"nothing", farFuture, farFuture.Add(time.Hour)},
	{"exactly[S1,S1]", c15S1, c15S1},
	{"ends-1s-before-S1", farPast, c15S1.Add(-time.Second)},
	{"starts-1s-after-S1", c15S1.Add(time.Second), farFuture},
	{"starts-500ms-after-S1", c15S1.Add(500 * time.Millisecond), farFuture},
	{"ends-500ms-before-S1", farPast, c15S1.Add(-500 * time.Millisecond)},
	{"[S1-500ms,S1+500ms]", c15S1.Add(-500 * time.Millisecond), c15S1.Add(500 * time.Millisecond)},
	// the zero time.Time as "no lower bound": 2000 years before the trips (no Duration is that long)
	{"from-the-zero-time-to-1s-before-S1", time.Time{}, c15S1.Add(-time.Second)},
}

func c15Harness(maxLen int, fourth bool) Harness { return c15HarnessT1(maxLen, fourth, 5) }

// c15HarnessT1: t1States = 5 (T1 in absent / unassigned / v1 / v2 / v1 with an empty list) or 6 (also: a vehicle without id)
// (a negative t1States: T1 alone, over that many states, T2 and T3 absent throughout - for longer histories)
func c15HarnessT1(maxLen int, fourth bool, t1States int) Harness {
	single := t1States < 0
	if single {
		t1States = -t1States
	}
	schemeMaxLen := 2
	if maxLen >= 4 {
		schemeMaxLen = 3
	}
	return func(c *Ctx) {
		n := 1 + c.Free("history_length", maxLen)
		var history [][4]int
		var names []string
		for k := 0; k < n; k++ {
			// T1 in {absent, unassigned, v1, v2, v1 with an empty update list, a vehicle without id}; T2, T3 in {absent, unassigned, v1, v2}
			nsym := t1States * 16
			if fourth {
				nsym *= 3 // T4 in {absent, unassigned, vehicle v1}
			}
			if single {
				nsym = t1States
			}
			sym := c.Free(fmt.Sprintf("feed[%d]", k), nsym)
			st := [4]int{sym % t1States, (sym / t1States) % 4, (sym / (4 * t1States)) % 4, sym / (16 * t1States)}
			history = append(history, st)
			names = append(names, fmt.Sprintf("%d%d%d%d", st[0], st[1], st[2], st[3]))
		}
		hist := strings.Join(names, " ")
		// the feed-time schemes multiply the space by four: histories of <= 2 feeds only (quick);
		// a history of two feeds already contains "updated, then missing"
		feedTimeScheme = 0
		if n <= schemeMaxLen {
			feedTimeScheme = c.Choose("feed_time_scheme", 4)
		}
		defer func() { feedTimeScheme = 0 }()
		hist += fmt.Sprintf(" [feed times: scheme %d]", feedTimeScheme)
		c.Input(hash64(hist), n >= 2, func() string {
			return "history (per feed: state of T1,T2,T3,T4; 0 absent, 1 unassigned, 2 vehicle v1, 3 vehicle v2, 4 vehicle v1 with an empty update list, 5 a vehicle without id): " + hist
		})
		var feeds []*gtfs.Realtime
		for k, st := range history {
			feeds = append(feeds, c15Feed(k, st))
		}
		ref := c15Reference(history)
		var outcome strings.Builder
		windows := c15Windows
		if n >= 3 && c.Tier == "quick" {
			// the window test does not depend on the length of the history: three windows for the long ones
			windows = []c15Window{c15Windows[0], c15Windows[2], c15Windows[5]}
			if single {
				windows = append(windows, c15Windows[8])
			}
		}
		for _, w := range windows {
			j, ok := buildJournalGuarded(c, feeds, w.start, w.end)
			if !ok {
				return
			}
			c.Steps(len(feeds))
			var want []*c15Entry
			for _, e := range ref {
				if e.assigned && !e.start.Before(w.start) && !e.start.After(w.end) {
					want = append(want, e)
				}
			}
			// Entries are matched by (start instant, trip-id suffix) - the statement's notion of
			// identity - not by the textual form of the UID, which is the implementation's choice;
			// the UID must only be unique per identity and the output sorted by it.
			key := func(e *c15Entry) string {
				suffix := e.tripID
				if len(suffix) >= 6 {
					suffix = suffix[6:]
				}
				return fmt.Sprintf("%d|%s", e.start.Unix(), suffix)
			}
			strip := func(e *c15Entry) string {
				s := e.String()
				return s[strings.Index(s, " id="):]
			}
			wantByKey := map[string]string{}
			for _, e := range want {
				wantByKey[key(e)] = strip(e)
			}
			gotByKey := map[string]string{}
			var gl []string
			uidOf := map[string]string{}
			for i := range j.Trips {
				t := &j.Trips[i]
				g := &c15Entry{uid: t.TripUID, tripID: t.TripID, route: t.RouteID, dir: t.DirectionID, start: t.StartTime.UTC(), vehicle: t.VehicleID, lastObserved: t.LastObserved, markedPast: t.MarkedPast, numUpdates: t.NumUpdates}
				s := strip(g)
				// the stop-level part is rendered from the journal's own stop times
				if len(t.StopTimes) == 1 && t.StopTimes[0].StopID == "A" {
					s = s[:strings.Index(s, " stop[A]")] + fmt.Sprintf(" stop[A]{lastObserved=%s markedPast=%s}", fmtTime(t.StopTimes[0].LastObserved), fmtTimePtr(t.StopTimes[0].MarkedPast))
				} else if len(t.StopTimes) == 0 {
					s = s[:strings.Index(s, " stop[A]")] + " stop[A]{none}"
				} else {
					s = s[:strings.Index(s, " stop[A]")] + fmt.Sprintf(" stops=%d", len(t.StopTimes))
				}
				if !t.IsAssigned {
					s += " UNASSIGNED"
				}
				k := key(g)
				if _, dup := gotByKey[k]; dup {
					c.Fail("journal-accounting:duplicate-entry", "history %s, window %s: two entries for (start instant, id suffix) %s", hist, w.name, k)
					return
				}
				if prev, ok := uidOf[t.TripUID]; ok && prev != k {
					c.Fail("journal-accounting:uid-not-unique", "history %s, window %s: UID %q used for %s and %s", hist, w.name, t.TripUID, prev, k)
					return
				}
				uidOf[t.TripUID] = k
				if i > 0 && !(j.Trips[i-1].TripUID < t.TripUID) {
					c.Fail("journal-accounting:not-sorted-by-uid", "history %s, window %s: UIDs %q, %q not strictly increasing", hist, w.name, j.Trips[i-1].TripUID, t.TripUID)
					return
				}
				gotByKey[k] = s
				gl = append(gl, s)
			}
			var keys []string
			for k := range wantByKey {
				keys = append(keys, k)
			}
			for k := range gotByKey {
				if _, ok := wantByKey[k]; !ok {
					keys = append(keys, k)
				}
			}
			sort.Strings(keys)
			var wl2, gl2 []string
			for _, k := range keys {
				wl2 = append(wl2, k+": "+wantByKey[k])
				gl2 = append(gl2, k+": "+gotByKey[k])
			}
			ws, gs := strings.Join(wl2, "\n"), strings.Join(gl2, "\n")
			outcome.WriteString(strings.Join(gl, "\n") + "\n--\n")
			if ws != gs {
				c.Fail("journal-accounting:"+c15DiffField(wl2, gl2), "history %s, window %s\n%s", hist, w.name, diffLines(ws, gs))
				return
			}
		}
		c.Outcome(outcome.String())
		shared := false
		for _, st := range history {
			if st[0] != 0 && st[1] != 0 {
				shared = true
			}
		}
		if shared {
			c.Witness("two_trips_of_one_uid_in_one_feed")
		}
		for _, e := range ref {
			if e.assigned && e.markedPast != nil {
				c.Witness("assigned_trip_marked_past")
			}
		}
	}
}

func c15DiffField(want, got []string) string {
	for i := range want {
		if want[i] != got[i] {
			if strings.HasSuffix(want[i], ": ") || strings.HasSuffix(got[i], ": ") {
				return "selection"
			}
			return firstDiffField(want[i], got[i])
		}
	}
	return "?"
}

// c15ManyTrips: N trips (N around powers of two) over three feeds in four appearance patterns,
// three windows; the expectation is computed per trip from the statement's rules.
var c15TripCounts = []int{9, 65, 257, 1025}
var c15Patterns = []string{"all assigned in every feed", "every third missing from feed 1", "odd ones never assigned; every fifth missing from feed 2", "assigned, then every second without vehicle, then all missing", "even ones from feed 0, odd ones first seen in feed 1 - in which every third even one is missing -, even ones missing from feed 2"}

// state of trip i in feed k under pattern p: 0 absent, 1 unassigned, 2 vehicle "v<i>a", 3 vehicle "v<i>b"
func c15PatternState(p, i, k int) int {
	switch p {
	case 0:
		return 2 + k%2
	case 1:
		if k == 1 && i%3 == 0 {
			return 0
		}
		return 2
	case 2:
		if i%2 == 1 {
			return 1
		}
		if k == 2 && i%5 == 0 {
			return 0
		}
		return 2 + (k+i)%2
	case 3:
		switch k {
		case 0:
			return 2
		case 1:
			if i%2 == 0 {
				return 1
			}
			return 3
		}
		return 0
	case 4:
		// new trips arrive in the very feed in which others go missing
		switch {
		case i%2 == 1 && k == 0:
			return 0
		case i%2 == 1:
			return 2
		case k == 1 && i%6 == 0, k == 2:
			return 0
		}
		return 2
	}
	return 0
}

func c15ManyTrips(c *Ctx) {
	n := c15TripCounts[c.Free("trips", len(c15TripCounts))]
	p := c.Free("pattern", len(c15Patterns))
	w := c.Free("window", 3)
	// the trips start around 1 700 000 000 s, or around 1 000 000 000 s where the decimal length of the
	// start time (the head of the UID) changes: "sorted by UID" then differs from "sorted by start"
	origin := c15S1
	if c.Free("start_times_around_10^9_seconds", 2) == 1 {
		origin = time.Unix(1000000000-int64(n/2)*60, 0).UTC()
		c.Witness("uids_of_different_decimal_length")
	}
	startOf := func(i int) time.Time { return origin.Add(time.Duration(i) * time.Minute) }
	idOf := func(i, k int) string { return fmt.Sprintf("%06d_L..N%d", (i*7+k)%1000000, i%7) } // the prefix changes from feed to feed, the suffix does not
	uidOf := func(i int) string { return fmt.Sprintf("%d_L..N%d", startOf(i).Unix(), i%7) }
	var feeds []*gtfs.Realtime
	for k := 0; k < 3; k++ {
		f := &gtfs.Realtime{CreatedAt: c14FeedTime(k)}
		// feeds list trips in identifier order as ParseRealtime produces them: here by construction order
		for i := 0; i < n; i++ {
			st := c15PatternState(p, i, k)
			if st == 0 {
				continue
			}
			stop := "A"
			day := time.Date(startOf(0).Year(), startOf(0).Month(), startOf(0).Day(), 0, 0, 0, 0, time.UTC)
			trip := gtfs.Trip{ID: gtfs.TripID{ID: idOf(i, k), RouteID: "L", DirectionID: gtfs.DirectionID_True, HasStartDate: true, StartDate: day, HasStartTime: true, StartTime: startOf(i).Sub(day)},
				StopTimeUpdates: []gtfs.StopTimeUpdate{{StopID: &stop}}, IsEntityInMessage: true}
			if st >= 2 {
				trip.Vehicle = &gtfs.Vehicle{ID: &gtfs.VehicleID{ID: fmt.Sprintf("v%d%c", i, 'a'+st-2)}}
			}
			f.Trips = append(f.Trips, trip)
		}
		feeds = append(feeds, f)
	}
	lo, hi := farPast, farFuture
	switch w {
	case 1:
		lo = startOf(n / 2)
	case 2:
		hi = startOf(n / 2)
	}
	desc := fmt.Sprintf("%d trips starting at %d.., pattern %q, window %d", n, startOf(0).Unix(), c15Patterns[p], w)
	c.Input(hash64(desc), true, func() string { return desc })
	j, ok := buildJournalGuarded(c, feeds, lo, hi)
	if !ok {
		return
	}
	c.Steps(3)
	// expectation
	type exp struct {
		uid, id, vehicle string
		updates          int
		last             time.Time
		marked           *time.Time
	}
	var want []exp
	for i := 0; i < n; i++ {
		if startOf(i).Before(lo) || startOf(i).After(hi) {
			continue
		}
		var e *exp
		present := false
		for k := 0; k < 3; k++ {
			st := c15PatternState(p, i, k)
			t := c14FeedTime(k)
			switch {
			case st == 0:
				if e != nil && present && e.marked == nil {
					tt := t
					e.marked = &tt
				}
				present = false
			case st == 1:
				if e != nil {
					present = true // listed, but an update without vehicle does not alter the recorded data
				}
			default:
				if e == nil {
					e = &exp{uid: uidOf(i)}
				}
				e.id, e.vehicle, e.last, e.marked = idOf(i, k), fmt.Sprintf("v%d%c", i, 'a'+st-2), t, nil
				e.updates++
				present = true
			}
		}
		if e != nil {
			want = append(want, *e)
		}
	}
	sort.Slice(want, func(a, b int) bool { return want[a].uid < want[b].uid })
	var wl, gl []string
	for _, e := range want {
		wl = append(wl, fmt.Sprintf("uid=%s id=%s vehicle=%s updates=%d last=%s marked=%s", e.uid, e.id, e.vehicle, e.updates, fmtTime(e.last), fmtTimePtr(e.marked)))
	}
	for i := range j.Trips {
		t := &j.Trips[i]
		gl = append(gl, fmt.Sprintf("uid=%s id=%s vehicle=%s updates=%d last=%s marked=%s", t.TripUID, t.TripID, t.VehicleID, t.NumUpdates, fmtTime(t.LastObserved), fmtTimePtr(t.MarkedPast)))
	}
	c.Outcome(strings.Join(gl, "\n"))
	if a, b := strings.Join(wl, "\n"), strings.Join(gl, "\n"); a != b {
		sig := "journal-accounting:many-trips:content"
		if len(wl) != len(gl) {
			sig = "journal-accounting:many-trips:selection"
		} else if sortedJoin(wl) == sortedJoin(gl) {
			sig = "journal-accounting:many-trips:order"
		}
		c.Fail(sig, "%s: journal entries differ from the statement's accounting\n%s", desc, diffLines(a+"\n", b+"\n"))
	}
	c.Witness("journal_of_many_trips")
}

var _ = journal.Journal{}

func init() {
	register(&Check{
		ID:    "C15",
		Level: "model_checking",
		Rule: "9 / 65 / 257 / 1025 trips over three feeds in 5 appearance patterns x 3 windows x start times around 1.7e9 s or straddling 1e9 s (UIDs of 9 and 10 digits) against per-trip accounting; three trip identities (T1, T2 share start instant and id suffix -> one UID; T3 other suffix and start) each per feed in {absent, unassigned, vehicle v1, vehicle v2} (T1 also: vehicle v1 with an empty update list) = 80 feed symbols (96 with a vehicle without id for T1, in histories of <= 2, thorough 3), the start date carried in a different *time.Location from feed to feed; ALL histories of <= 3 feeds (thorough <= 4) x 9 windows (incl. bounds with a sub-second part, and the zero time as lower bound), histories of <= 2 (thorough 3) feeds additionally under 4 feed-time schemes (60 s apart, all equal, no timestamps, decreasing); T1 alone in ALL histories of <= 5 (thorough 6) feeds (seen with a vehicle, missing, back without a vehicle, missing again, ...); plus a fourth identity T4 (same trip id and start date as T1, another start time) in {absent, unassigned, v1}: 240 symbols, ALL histories of <= 2 (thorough 3) feeds x 9 windows (incl. bounds with a sub-second part, and the zero time as lower bound); " +
			"non-trivial = distinct histories of >= 2 feeds; oracle = reference accountant compared field by field (UID, id fields, vehicle, last observed, marked past, update count, stop-level marks), order and uniqueness included",
		Assumptions: []string{"feeds list their trips in identifier order, as ParseRealtime produces them", "feed times are 60 s apart starting at a fixed instant"},
		Scenarios: func(tier string) []*Scenario {
			n := 3
			if tier == "thorough" {
				n = 4
			}
			return []*Scenario{{Name: fmt.Sprintf("all-histories<=%d", n), Bound: 1, Run: c15Harness(n, false)},
				{Name: fmt.Sprintf("four-identities<=%d", n-1), Bound: 1, Run: c15Harness(n-1, true)},
				{Name: fmt.Sprintf("vehicle-without-id<=%d", n-1), Bound: 1, Run: c15HarnessT1(n-1, false, 6)},
				{Name: fmt.Sprintf("one-trip<=%d", n+2), Bound: 1, Run: c15HarnessT1(n+2, false, -4)},
				{Name: "many-trips", Bound: -1, Run: c15ManyTrips}}
		},
	})
}
