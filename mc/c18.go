package main

// C18 - concurrent parsing is race-free and equals sequential parsing (engine E3, sched.go).
//
// Threads: 2 (thorough: also 3) calls out of {ParseRealtime(b1), ParseRealtime(b2),
// ParseStatic(z)}, each followed by hashing and walking its own result, sharing the input
// buffers and ONE options value, for the bundled configurations (caller's options with nil
// Extension, explicit no-op extension, nycttrips, nyctalerts with complex deduplication and
// metadata). Explored: every interleaving at the scheduling points with <= 2 preemptions
// (thorough: <= 3 for two threads), each executed under the race detector with the invisible
// hand-off. Plus: results of two earlier calls hashed / walked by two goroutines.
// Oracles: no race report in any schedule; every call's dump equals its solo dump.

import (
	"fmt"
	"os"
	"sort"
	"strings"
	"syscall"
	"time"

	"github.com/jamespfennell/gtfs"
	"github.com/jamespfennell/gtfs/extensions"
	"github.com/jamespfennell/gtfs/extensions/nyctalerts"
	"github.com/jamespfennell/gtfs/extensions/nycttrips"
	gtfsrt "github.com/jamespfennell/gtfs/proto"
)

var raceLog *os.File
var raceLogOff int64

func raceCaptureInit() {
	if raceLog != nil || !raceEnabled || os.Getenv("VERIF_NO_RACECAP") != "" {
		return
	}
	fd, err := syscall.Dup(2)
	if err != nil {
		fatalf("dup stderr: %v", err)
	}
	origStderr = os.NewFile(uintptr(fd), "origstderr")
	var f *os.File
	if p := os.Getenv("VERIF_RACELOG"); p != "" {
		f, err = os.OpenFile(p, os.O_CREATE|os.O_RDWR|os.O_TRUNC, 0644)
	} else {
		f, err = os.CreateTemp("", "verifrace")
		if err == nil {
			os.Remove(f.Name())
		}
	}
	if err != nil {
		fatalf("race log: %v", err)
	}
	if err := syscall.Dup2(int(f.Fd()), 2); err != nil {
		fatalf("dup2: %v", err)
	}
	raceLog = f
}

func raceLogNew() string {
	if raceLog == nil {
		return ""
	}
	st, err := raceLog.Stat()
	if err != nil || st.Size() <= raceLogOff {
		return ""
	}
	b := make([]byte, st.Size()-raceLogOff)
	raceLog.ReadAt(b, raceLogOff)
	raceLogOff = st.Size()
	return string(b)
}

// splitReports splits the race detector's output into individual reports.
func splitReports(log string) []string {
	var out []string
	for _, p := range strings.Split(log, "==================") {
		if strings.Contains(p, "DATA RACE") {
			out = append(out, strings.TrimSpace(p))
		}
	}
	return out
}

// raceSignature names the repository functions on the stacks of a race report.
func raceSignature(report string) (string, bool) {
	seen := map[string]bool{}
	var fns []string
	for _, l := range strings.Split(report, "\n") {
		l = strings.TrimSpace(l)
		if !strings.HasPrefix(l, "github.com/jamespfennell/gtfs") {
			continue
		}
		name := strings.TrimPrefix(l, "github.com/jamespfennell/gtfs")
		name = strings.TrimLeft(name, "/.")
		if i := strings.Index(name, "("); i > 0 && !strings.HasPrefix(name[i:], "(*") {
			name = name[:i]
		} else if j := strings.LastIndex(name, "("); j > 0 {
			name = name[:j]
		}
		if !seen[name] {
			seen[name] = true
			fns = append(fns, name)
		}
	}
	if len(fns) == 0 {
		return "", false
	}
	// the innermost frame of each of the two stacks is what matters; keep the two first distinct names
	if len(fns) > 2 {
		fns = fns[:2]
	}
	sort.Strings(fns)
	return "race:" + strings.Join(fns, "|"), true
}

type c18Config struct {
	name string
	mk   func() *gtfs.ParseRealtimeOptions // one shared value per execution
}

var c18Configs = []c18Config{
	{"nil-extension", func() *gtfs.ParseRealtimeOptions { return &gtfs.ParseRealtimeOptions{Timezone: zoneNY} }},
	{"no-op-extension", func() *gtfs.ParseRealtimeOptions {
		return &gtfs.ParseRealtimeOptions{Extension: wrapExt(extensions.NoExtension())}
	}},
	{"nycttrips", func() *gtfs.ParseRealtimeOptions {
		return &gtfs.ParseRealtimeOptions{Timezone: zoneNY, Extension: wrapExt(nycttrips.Extension(nycttrips.ExtensionOpts{FilterStaleUnassignedTrips: true}))}
	}},
	{"nyctalerts", func() *gtfs.ParseRealtimeOptions {
		return &gtfs.ParseRealtimeOptions{Extension: wrapExt(nyctalerts.Extension(nyctalerts.ExtensionOpts{ElevatorAlertsDeduplicationPolicy: nyctalerts.DeduplicateInComplex, AddNyctMetadata: true, SkipTimetabledNoServiceAlerts: true}))}
	}},
	// the bundled extensions handed to the parser as they are (no proxy: scheduling points only at
	// the per-entity hooks), with the zone left to the default
	{"raw-nycttrips-default-zone", func() *gtfs.ParseRealtimeOptions {
		return &gtfs.ParseRealtimeOptions{Extension: nycttrips.Extension(nycttrips.ExtensionOpts{})}
	}},
	{"raw-nyctalerts-no-dedup", func() *gtfs.ParseRealtimeOptions {
		return &gtfs.ParseRealtimeOptions{Extension: nyctalerts.Extension(nyctalerts.ExtensionOpts{ElevatorAlertsDeduplicationPolicy: nyctalerts.NoDeduplication})}
	}},
	{"nil-extension-default-zone", func() *gtfs.ParseRealtimeOptions { return &gtfs.ParseRealtimeOptions{} }},
	{"raw-nyctalerts-in-station", func() *gtfs.ParseRealtimeOptions {
		return &gtfs.ParseRealtimeOptions{Extension: nyctalerts.Extension(nyctalerts.ExtensionOpts{ElevatorAlertsDeduplicationPolicy: nyctalerts.DeduplicateInStation, ElevatorAlertsInformUsingStationIDs: true, SkipTimetabledNoServiceAlerts: true, AddNyctMetadata: true})}
	}},
}

type c18Call struct {
	name string
	run  func(opts *gtfs.ParseRealtimeOptions) string // parses, hashes, walks; returns the dump
	// after (optional) is called once all threads are done: "" or what is wrong with what the call
	// still holds (an error value whose text has changed since it was returned)
	after func() string
}

func rtCall(name string, b []byte) c18Call {
	return c18Call{name: name, run: func(opts *gtfs.ParseRealtimeOptions) string {
		r, err := gtfs.ParseRealtime(b, opts)
		if err != nil {
			return "error: " + err.Error()
		}
		for i := range r.Trips {
			r.Trips[i].Hash(&recHash{})
		}
		for i := range r.Vehicles {
			r.Vehicles[i].Hash(&recHash{})
		}
		return dumpRealtime(r, rtDumpOpts{links: true})
	}}
}

// c18OffMarker: line appended to a dump when a start date is not the start of the wire's day in the
// zone of the call that parsed it (a date resolved in another call's zone)
const c18OffMarker = "START-DATE-NOT-MIDNIGHT-IN-THE-ZONE-OF-THIS-CALL"

// rtCallInZone: a call with options of its own (not the shared value): its own Timezone. Every
// start date of the feed must come out as the start of that day in this call's zone.
func rtCallInZone(name string, b []byte, zone *time.Location, wire map[string]string) c18Call {
	return c18Call{name: name, run: func(_ *gtfs.ParseRealtimeOptions) string {
		r, err := gtfs.ParseRealtime(b, &gtfs.ParseRealtimeOptions{Timezone: zone, Extension: wrapExt(extensions.NoExtension())})
		if err != nil {
			return "error: " + err.Error()
		}
		d := dumpRealtime(r, rtDumpOpts{links: true})
		in := zone
		if in == nil {
			in = time.UTC
		}
		for i := range r.Trips {
			t := &r.Trips[i]
			if !t.ID.HasStartDate {
				continue
			}
			if l := t.ID.StartDate.In(in); l.Format("20060102 15:04:05") != wire[t.ID.ID]+" 00:00:00" {
				d += fmt.Sprintf("%s trip=%s wire=%s parsed=%s zone=%v\n", c18OffMarker, t.ID.ID, wire[t.ID.ID], t.ID.StartDate.Format(time.RFC3339), in)
			}
		}
		return d
	}}
}

var c18ZonesFeedCache []byte
var c18ZonesWire = map[string]string{}

// c18ZonesFeed: trips whose start dates alternate between two days
func c18ZonesFeed() []byte {
	if c18ZonesFeedCache == nil {
		m := newFeed(cp(&tsAlphabet[0]))
		for i, d := range []string{"20240620", "20240621", "20240620", "20240621", "20240620"} {
			id := fmt.Sprintf("Z%d", i+1)
			c18ZonesWire[id] = d
			m.Entity = append(m.Entity, &gtfsrt.FeedEntity{Id: sp("tu" + id), TripUpdate: &gtfsrt.TripUpdate{Trip: &gtfsrt.TripDescriptor{TripId: sp(id), StartDate: sp(d), RouteId: sp("R")},
				StopTimeUpdate: []*gtfsrt.TripUpdate_StopTimeUpdate{{StopId: sp("S" + id)}}}})
		}
		c18ZonesFeedCache = marshalFeed(m)
	}
	return c18ZonesFeedCache
}

// journalCall parses a feed, builds a journal from it and its shortened later version, and
// exports it through the package-level templates.
func journalCall(name string, b []byte) c18Call {
	return c18Call{name: name, run: func(opts *gtfs.ParseRealtimeOptions) string {
		r, err := gtfs.ParseRealtime(b, opts)
		if err != nil {
			return "error: " + err.Error()
		}
		j := buildJournal([]*gtfs.Realtime{r, deriveFeed(r, 2)}, farPast, farFuture)
		e, err := j.ExportToCsv()
		if err != nil {
			return "error: " + err.Error()
		}
		return dumpJournal(j) + string(e.TripsCsv) + string(e.StopTimesCsv)
	}}
}

func staticCall(name string, z []byte) c18Call {
	var held error // the caller keeps the error it was given
	var heldText string
	after := func() string {
		if held != nil && held.Error() != heldText {
			return fmt.Sprintf("the error returned to this call read %q when it was returned and reads %q now", heldText, held.Error())
		}
		return ""
	}
	return c18Call{name: name, after: after, run: func(*gtfs.ParseRealtimeOptions) string {
		r, err := gtfs.ParseStatic(z, gtfs.ParseStaticOptions{InheritWheelchairBoarding: true})
		if err != nil {
			held, heldText = err, err.Error()
			return "error: " + err.Error()
		}
		for i := range r.Stops {
			_ = r.Stops[i].Root()
		}
		return dumpStatic(r, staticDumpOpts{})
	}}
}

var c18Inputs struct {
	feeds      [][]byte
	zip        []byte
	zipUnknown []byte // the first agency's timezone is a name the tz database does not know (never seen before in this process)
	zipBOM     []byte // every member starts with a UTF-8 byte order mark
	zipBOM16   []byte // agency.txt is UTF-16LE with a byte order mark
	zipRejects []byte // one rejected row of every kind, an optional file and an optional column missing
	zipNoCols  []byte // every table but agency.txt lacks one of its required columns
}

// c18Large: a well-formed archive of 1030 rows per table in which one trip id is listed twice in
// trips.txt (rows 2 and 5) and every trip's stop times are listed last-first (built once: sizes
// at which a parser might split its work over goroutines of its own).
var c18LargeCache []byte

func c18Large() []byte {
	if c18LargeCache == nil {
		k := 1030
		n := staticCounts{agencies: 3, routes: 9, stops: 65, transfers: 9, calendars: 5, calendarDates: 9, shapes: 9, shapePoints: 3, trips: k, frequencies: 9, stopTimes: 2 * k}
		m := genStaticFeedN(&Ctx{}, false, n, nil, nil)
		tr := m.t("trips.txt")
		dup, _ := tr.get(2, "trip_id")
		tr.set(5, "trip_id", dup)
		st := m.t("stop_times.txt")
		for i, j := 0, len(st.Rows)-1; i < j; i, j = i+1, j-1 {
			st.Rows[i], st.Rows[j] = st.Rows[j], st.Rows[i]
		}
		c18LargeCache = renderFeed(m, presentation{})
	}
	return c18LargeCache
}

// c18RejectsModel: three trips, one rejected row of every kind.
func c18RejectsModel() *feedModel {
	n3 := baseCounts
	n3.trips, n3.stopTimes = 3, 6
	mr := genStaticFeedN(&Ctx{}, false, n3, nil, nil)
	for i, rj := range rejections {
		if rj.times <= 1 {
			spliceRejected(mr, rj, i%2, fmt.Sprintf("r%d", i))
		}
	}
	return mr
}

func c18RejectsArchive() []byte { return renderFeed(c18RejectsModel(), presentation{}) }

// c18BrokenStopTimes: a well-formed archive except that stop_times.txt makes the CSV reader fail
// in its third line (0: a bare quote inside an unquoted field, 1: a row with one field too many).
func c18BrokenStopTimes(kind int) []byte {
	m := genStaticFeedN(&Ctx{}, false, baseCounts, nil, nil)
	var members []rawMember
	for _, t := range m.Tables {
		content := renderCSV(t, presentation{})
		if t.File == "stop_times.txt" {
			lines := strings.SplitAfter(string(content), "\n")
			if kind == 0 {
				lines[2] = "T1,08:00:00,08:0\"0:00,S1,3\n"
			} else {
				lines[2] = strings.TrimSuffix(lines[2], "\n") + ",one-too-many\n"
			}
			content = []byte(strings.Join(lines, ""))
		}
		members = append(members, rawMember{t.File, content})
	}
	return buildZip(members, false)
}

// c18EmptyMember: an archive in which the named member has no bytes at all (rejected).
func c18EmptyMember(file string) []byte {
	m := genStaticFeedN(&Ctx{}, false, baseCounts, nil, nil)
	var members []rawMember
	for _, t := range m.Tables {
		content := renderCSV(t, presentation{})
		if t.File == file {
			content = nil
		}
		members = append(members, rawMember{t.File, content})
	}
	return buildZip(members, false)
}

// c18WithoutMember: a well-formed archive from which one member is missing altogether.
func c18WithoutMember(file string) []byte {
	m := genStaticFeedN(&Ctx{}, false, baseCounts, nil, nil)
	var members []rawMember
	for _, t := range m.Tables {
		if t.File != file {
			members = append(members, rawMember{t.File, renderCSV(t, presentation{})})
		}
	}
	return buildZip(members, false)
}

var c18ValidZones = []string{"America/Chicago", "America/Denver", "America/Los_Angeles", "America/Anchorage", "America/Phoenix", "America/Toronto", "America/Vancouver", "America/Mexico_City",
	"America/Bogota", "America/Lima", "America/Santiago", "America/Sao_Paulo", "America/Argentina/Buenos_Aires", "America/Halifax", "America/St_Johns", "Europe/London", "Europe/Dublin", "Europe/Lisbon",
	"Europe/Paris", "Europe/Berlin", "Europe/Madrid", "Europe/Rome", "Europe/Amsterdam", "Europe/Brussels", "Europe/Vienna", "Europe/Zurich", "Europe/Stockholm", "Europe/Oslo", "Europe/Copenhagen",
	"Europe/Helsinki", "Europe/Warsaw", "Europe/Prague", "Europe/Budapest", "Europe/Athens", "Europe/Istanbul", "Europe/Moscow", "Europe/Kiev", "Africa/Cairo", "Africa/Johannesburg", "Africa/Lagos",
	"Africa/Nairobi", "Asia/Dubai", "Asia/Karachi", "Asia/Kolkata", "Asia/Dhaka", "Asia/Bangkok", "Asia/Singapore", "Asia/Hong_Kong", "Asia/Shanghai", "Asia/Taipei", "Asia/Seoul", "Asia/Tokyo",
	"Asia/Manila", "Asia/Jakarta", "Australia/Perth", "Australia/Adelaide", "Australia/Brisbane", "Australia/Sydney", "Australia/Melbourne", "Pacific/Auckland", "Pacific/Honolulu", "Pacific/Fiji"}

var c18Salt int

// c18Init builds the inputs of one execution. Dates and ids are salted with a per-process
// execution counter: a cache keyed by input content is then cold in every schedule, so two
// concurrent first uses really happen (the salt changes values only, never the control flow or
// the choice structure, so replay is unaffected).
func c18Init() {
	c18Salt++
	day := time.Date(2024, 1, 1, 0, 0, 0, 0, time.UTC).AddDate(0, 0, c18Salt%20000)
	date := day.Format("20060102")
	// long ids (> 32 bytes) so that any size-dependent path of the hasher or parser is taken
	c18Inputs.feeds = c06FeedsWith(date, fmt.Sprintf("x%dLONGIDLONGIDLONGIDLONGIDLONGIDLONGID", c18Salt))
	m := genStaticFeedN(&Ctx{}, false, baseCounts, nil, nil)
	{
		// boarding area -> platform -> station: the results are walked (Stop.Root) by the thread that parsed them
		st := m.t("stops.txt")
		p2, _ := st.get(1, "stop_id")
		st.set(2, "parent_station", p2)
		st.set(2, "location_type", "4")
	}
	cal := m.t("calendar.txt")
	for r := range cal.Rows {
		cal.set(r, "start_date", date)
		cal.set(r, "end_date", day.AddDate(0, 1, r).Format("20060102"))
	}
	cd := m.t("calendar_dates.txt")
	for r := range cd.Rows {
		cd.set(r, "date", day.AddDate(0, 0, r+1).Format("20060102"))
	}
	// the zone of the first agency is salted too (valid names): a cache of loaded zones is cold as well
	m.t("agency.txt").set(0, "agency_timezone", c18ValidZones[c18Salt%len(c18ValidZones)])
	c18Inputs.zip = renderFeed(m, presentation{})
	mu := m.clone()
	mu.t("agency.txt").set(0, "agency_timezone", fmt.Sprintf("Nowhere/Zone%d", c18Salt))
	c18Inputs.zipUnknown = renderFeed(mu, presentation{})
	c18Inputs.zipBOM = renderFeed(m, presentation{BOM: true})
	{
		mr := c18RejectsModel()
		mr.t("calendar.txt").set(0, "start_date", date)
		// one-sided times, a time with blanks and one with too many colons, a transfer from a stop to itself
		st := mr.t("stop_times.txt")
		st.set(len(st.Rows)-1, "arrival_time", "")
		st.set(len(st.Rows)-2, "departure_time", "")
		st.set(len(st.Rows)-3, "arrival_time", " 8:05:00 ")
		st.set(len(st.Rows)-4, "arrival_time", "8:05:00:00")
		if tf := mr.t("transfers.txt"); len(tf.Rows) > 0 {
			from, _ := tf.get(0, "from_stop_id")
			tf.Rows = append(tf.Rows, append([]string{}, tf.Rows[0]...))
			tf.set(len(tf.Rows)-1, "to_stop_id", from)
		}
		mr.t("stops.txt").dropCol("stop_desc")
		var keep []*table
		for _, t := range mr.Tables {
			if t.File != "frequencies.txt" {
				keep = append(keep, t)
			}
		}
		mr.Tables = keep
		c18Inputs.zipRejects = renderFeed(mr, presentation{})
		mc := m.clone()
		for file, col := range map[string]string{"routes.txt": "route_type", "stops.txt": "stop_id", "transfers.txt": "to_stop_id", "calendar.txt": "monday", "calendar_dates.txt": "date",
			"shapes.txt": "shape_pt_lat", "trips.txt": "service_id", "frequencies.txt": "headway_secs", "stop_times.txt": "stop_sequence"} {
			if t := mc.t(file); t != nil {
				t.dropCol(col)
			}
		}
		c18Inputs.zipNoCols = renderFeed(mc, presentation{})
	}
	var members []rawMember
	for _, t := range m.Tables {
		content := renderCSV(t, presentation{})
		if t.File == "agency.txt" || t.File == "stops.txt" {
			u16 := []byte{0xFF, 0xFE}
			for _, r := range string(content) {
				if r > 0xFFFF {
					r = '?'
				}
				u16 = append(u16, byte(r), byte(r>>8))
			}
			content = u16
		}
		members = append(members, rawMember{t.File, content})
	}
	c18Inputs.zipBOM16 = buildZip(members, false)
}

func c18Harness(cfg c18Config, calls func() []c18Call) Harness {
	return func(c *Ctx) {
		c18Init()
		raceCaptureInit()
		cs := calls()
		var names []string
		for _, x := range cs {
			names = append(names, x.name)
		}
		// the concurrent run comes FIRST (on inputs this process has never seen), the solo runs on
		// fresh options afterwards: lazily filled caches are cold when the threads meet
		solo := make([]string, len(cs))
		raceLogNew()
		before := raceErrors()
		shared := cfg.mk()
		got := make([]string, len(cs))
		panics := make([]string, len(cs))
		var bodies []func()
		for i, x := range cs {
			i, x := i, x
			bodies = append(bodies, func() {
				pan, where, text, _ := guard(func() { got[i] = x.run(shared) })
				if pan {
					panics[i] = where + ": " + text
				}
			})
		}
		trace := runThreads(c, bodies)
		c.Steps(len(trace))
		raceAfter := raceErrors()
		var afterwards []string
		for _, x := range cs {
			if x.after != nil {
				afterwards = append(afterwards, x.after())
			} else {
				afterwards = append(afterwards, "")
			}
		}
		for i, x := range cs {
			i, x := i, x
			if !guardSig(c, "solo "+x.name, func() { solo[i] = x.run(cfg.mk()) }) {
				return
			}
		}
		desc := fmt.Sprintf("%s: %s schedule=%s", cfg.name, strings.Join(names, " || "), trace)
		c.Input(hash64(desc), strings.Count(trace, "0") > 0 && strings.Count(trace, "1") > 0, func() string { return desc })
		c.Outcome(trace)
		if raceAfter > before {
			for _, rep := range splitReports(raceLogNew()) {
				sig, inRepo := raceSignature(rep)
				if !inRepo {
					harnessBug("race report without a library frame (harness race?):\n%s", rep)
				}
				c.Fail(sig, "%s\n%s", desc, rep)
			}
		}
		for i := range cs {
			if afterwards[i] != "" {
				c.Fail("error-value-rewritten-by-another-call", "%s: call %d (%s): %s", desc, i, cs[i].name, afterwards[i])
			}
			if panics[i] != "" {
				c.Fail("panic-under-concurrency:"+digitsRe.ReplaceAllString(panics[i], "N"), "%s: call %d panicked: %s", desc, i, panics[i])
			} else if strings.Contains(got[i], c18OffMarker) || strings.Contains(solo[i], c18OffMarker) {
				c.Fail("start-date-in-another-call's-zone", "%s: call %d (%s): a start date is not the start of its day in the zone of the call\nconcurrent:\n%s\nalone afterwards:\n%s", desc, i, cs[i].name, got[i], solo[i])
			} else if got[i] != solo[i] {
				c.Fail("result-differs-from-solo/"+cfg.name+"/"+firstDiffKind(solo[i], got[i]), "%s: call %d (%s) returned something else than when running alone\n%s", desc, i, cs[i].name, diffLines(solo[i], got[i]))
			}
		}
		pre := 0
		for i := 1; i < len(trace); i++ {
			if trace[i] != trace[i-1] {
				pre++
			}
		}
		if pre >= 2 {
			c.Witness("threads_interleaved")
		}
	}
}

// c18Results: results of two earlier (sequential) calls with one shared extension are hashed
// and walked by two goroutines.
func c18Results(cfg c18Config) Harness {
	return func(c *Ctx) {
		c18Init()
		raceCaptureInit()
		shared := cfg.mk()
		f := c18Inputs.feeds
		pairs := [][2]int{{1, 2}, {5, 5}, {3, 4}}
		p := pairs[c.Free("feeds", len(pairs))]
		r1, err1 := gtfs.ParseRealtime(f[p[0]], shared)
		r2, err2 := gtfs.ParseRealtime(f[p[1]], shared)
		if err1 != nil || err2 != nil {
			harnessBug("seed feeds do not parse: %v %v", err1, err2)
		}
		raceLogNew()
		before := raceErrors()
		walk := func(r *gtfs.Realtime) func() {
			return func() {
				for i := range r.Trips {
					r.Trips[i].Hash(&recHash{})
				}
				for i := range r.Vehicles {
					r.Vehicles[i].Hash(&recHash{})
				}
				_ = dumpRealtime(r, rtDumpOpts{links: true})
			}
		}
		trace := runThreads(c, []func(){walk(r1), walk(r2)})
		desc := fmt.Sprintf("%s: results of feeds %d and %d hashed and walked concurrently, schedule=%s", cfg.name, p[0], p[1], trace)
		c.Input(hash64(desc), true, func() string { return desc })
		c.Outcome(trace)
		c.Steps(2)
		if n := raceErrors(); n > before {
			for _, rep := range splitReports(raceLogNew()) {
				sig, inRepo := raceSignature(rep)
				if !inRepo {
					// accesses by the harness' own dump/hash code to memory shared between two results
					sig = "race:results-share-memory"
				}
				c.Fail(sig, "%s\n%s", desc, rep)
			}
		}
	}
}

func init() {
	register(&Check{
		ID:    "C18",
		Level: "model_checking",
		Rule: "threads = parse calls (each followed by hashing and walking its own result) sharing input buffers and one options value; scenarios: realtime||realtime on the same buffer (a valid one; a rejected one: HTML + half a feed), on two copies of a feed of NYCT oddities (assigned trips without train id, updates without stop id) and on two different feeds (elevator feeds that share groups for nyctalerts), static||static on the same archive (known and never-seen unknown agency zone; members with UTF-8 / UTF-16 byte order marks; an archive of 1030 trips with a duplicate trip id, alone and twice; two archives rejected for an empty member of different names; two whose stop_times.txt makes the CSV reader fail; an archive with one rejected row of every kind, a missing optional file and column), realtime||realtime on a kitchen-sink feed (every optional field, alerts with route fall-backs, label-only and bare vehicles), static||realtime, journal+CSV export||journal+CSV export, static||static on archives lacking different required files (each call keeps the error it was given and reads it again when all threads are done), realtime||realtime with options of their own whose time zones differ (alternating start dates: each must be the start of its day in the zone of its own call), for 8 configurations (nil Extension with and without Timezone, no-op, nycttrips and nyctalerts behind a yielding proxy, nycttrips and two nyctalerts policies unwrapped with the default zone); thorough adds 3-thread scenarios; every interleaving at the scheduling points (extension method calls + per-entity / per-file hooks) with <= 2 preemptions (thorough <= 3; <= 2 for three threads), each executed under -race with a hand-off the detector cannot see; " +
			"non-trivial = distinct schedules in which both threads ran between points; oracle = zero race reports (runtime.RaceErrors per schedule) and every call's dump equal to its solo dump",
		Assumptions: []string{"the Go race detector is trusted (no false positives; bounded shadow history)", "synchronisation inside the standard library / protobuf (sync.Pool, sync.Once) creates real happens-before edges that can hide a conflict in one schedule; the explored preemptions move the calls relative to those edges", "exhaustive over schedules at the listed points within the preemption bound, and over memory for the executed paths; not over inputs"},
		Scenarios: func(tier string) []*Scenario {
			k := 2
			if tier == "thorough" {
				k = 3 // with 4 the scenarios below do not finish inside the time cap (measured: 2 million schedules in 90 minutes, not exhaustive)
			}
			var s []*Scenario
			for _, cfg := range c18Configs {
				cfg := cfg
				a, b := 3, 4
				if strings.Contains(cfg.name, "nyctalerts") {
					a, b = 1, 2
				}
				s = append(s,
					&Scenario{Name: "rt-same-buffer/" + cfg.name, Bound: k, Run: c18Harness(cfg, func() []c18Call {
						return []c18Call{rtCall("ParseRealtime(mixed)", c18Inputs.feeds[5]), rtCall("ParseRealtime(mixed)", c18Inputs.feeds[5])}
					})},
					&Scenario{Name: "rt-rejected-buffer/" + cfg.name, Bound: k, Run: c18Harness(cfg, func() []c18Call {
						// the same unparseable buffer (an HTML error page followed by half a feed) handed to two calls, and to a valid one's neighbour
						bad := append([]byte("<html><head><title>503 Service Temporarily Unavailable</title></head><body>try again later</body></html>"), c18Inputs.feeds[3][:len(c18Inputs.feeds[3])/2]...)
						return []c18Call{rtCall("A(rejected buffer)", bad), rtCall("B(same buffer)", bad)}
					})},
					&Scenario{Name: "rt-nyct-oddities/" + cfg.name, Bound: k, Run: c18Harness(cfg, func() []c18Call {
						// assigned trips without train id, updates without stop ids: each call on its own copy
						return []c18Call{rtCall("ParseRealtime(oddities)", c18Inputs.feeds[6]), rtCall("ParseRealtime(copy of oddities)", append([]byte(nil), c18Inputs.feeds[6]...))}
					})},
					&Scenario{Name: "rt-kitchen-sink/" + cfg.name, Bound: k - 1, Run: c18Harness(cfg, func() []c18Call {
						// every optional field, alerts with route fall-backs, label-only and bare vehicles: on one shared buffer
						return []c18Call{rtCall("ParseRealtime(kitchen sink)", c18Inputs.feeds[7]), rtCall("ParseRealtime(kitchen sink)", c18Inputs.feeds[7])}
					})},
					&Scenario{Name: "rt-two-feeds/" + cfg.name, Bound: k, Run: c18Harness(cfg, func() []c18Call {
						return []c18Call{rtCall(fmt.Sprintf("ParseRealtime(feed%d)", a), c18Inputs.feeds[a]), rtCall(fmt.Sprintf("ParseRealtime(feed%d)", b), c18Inputs.feeds[b])}
					})},
					&Scenario{Name: "results-walked-concurrently/" + cfg.name, Bound: k, Run: c18Results(cfg)},
				)
				if tier == "thorough" {
					s = append(s, &Scenario{Name: "three-threads/" + cfg.name, Bound: 2, Run: c18Harness(cfg, func() []c18Call {
						return []c18Call{rtCall("ParseRealtime(mixed)", c18Inputs.feeds[5]), rtCall(fmt.Sprintf("ParseRealtime(feed%d)", a), c18Inputs.feeds[a]), staticCall("ParseStatic(z)", c18Inputs.zip)}
					})})
				}
			}
			s = append(s,
				&Scenario{Name: "static-same-archive", Bound: k, Run: c18Harness(c18Configs[1], func() []c18Call {
					return []c18Call{staticCall("ParseStatic(z)", c18Inputs.zip), staticCall("ParseStatic(z)", c18Inputs.zip)}
				})},
				&Scenario{Name: "static-unknown-timezone", Bound: k, Run: c18Harness(c18Configs[1], func() []c18Call {
					return []c18Call{staticCall("ParseStatic(z, unknown agency zone)", c18Inputs.zipUnknown), staticCall("ParseStatic(z, unknown agency zone)", c18Inputs.zipUnknown)}
				})},
				&Scenario{Name: "static-with-byte-order-marks", Bound: k, Run: c18Harness(c18Configs[1], func() []c18Call {
					return []c18Call{staticCall("ParseStatic(z, UTF-8 BOM)", c18Inputs.zipBOM), staticCall("ParseStatic(z, UTF-16 BOM)", c18Inputs.zipBOM16)}
				})},
				&Scenario{Name: "static-with-rejected-rows", Bound: k, Run: c18Harness(c18Configs[1], func() []c18Call {
					// every row-level rejection path (and the warnings they produce), a missing optional file and column
					return []c18Call{staticCall("ParseStatic(rejected rows)", c18Inputs.zipRejects), staticCall("ParseStatic(rejected rows)", c18Inputs.zipRejects)}
				})},
				&Scenario{Name: "static-missing-required-columns", Bound: k, Run: c18Harness(c18Configs[1], func() []c18Call {
					return []c18Call{staticCall("ParseStatic(required columns missing)", c18Inputs.zipNoCols), staticCall("ParseStatic(rejected rows)", c18Inputs.zipRejects)}
				})},
				&Scenario{Name: "static-csv-errors-in-stop_times", Bound: k, Run: c18Harness(c18Configs[1], func() []c18Call {
					// both calls return an error; thousands of such calls run in each worker process: nothing may
					// be left behind by a failed call (a later call that never returns is caught by the watchdog)
					return []c18Call{staticCall("ParseStatic(bare quote in stop_times.txt)", c18BrokenStopTimes(0)), staticCall("ParseStatic(wrong field count in stop_times.txt)", c18BrokenStopTimes(1))}
				})},
				&Scenario{Name: "static-large-archive", Bound: 1, Run: c18Harness(c18Configs[1], func() []c18Call {
					return []c18Call{staticCall("ParseStatic(1030 trips, one id twice)", c18Large())}
				})},
				&Scenario{Name: "static-large-archive-twice", Bound: 1, Run: c18Harness(c18Configs[1], func() []c18Call {
					return []c18Call{staticCall("ParseStatic(large)", c18Large()), staticCall("ParseStatic(large)", c18Large())}
				})},
				&Scenario{Name: "static-rejected-archives", Bound: k, Run: c18Harness(c18Configs[1], func() []c18Call {
					// two archives rejected for the same reason in different members: each call's error is its own
					return []c18Call{staticCall("ParseStatic(agency.txt empty)", c18EmptyMember("agency.txt")), staticCall("ParseStatic(routes.txt empty)", c18EmptyMember("routes.txt"))}
				})},
				&Scenario{Name: "rt-two-zones", Bound: k, Run: c18Harness(c18Configs[1], func() []c18Call {
					// each call has options of its own: the same start dates in two zones (one left to the default)
					f := c18ZonesFeed()
					return []c18Call{rtCallInZone("ParseRealtime(America/Chicago)", f, mustLoc("America/Chicago"), c18ZonesWire), rtCallInZone("ParseRealtime(default zone)", f, nil, c18ZonesWire)}
				})},
				&Scenario{Name: "static-missing-required-files", Bound: k, Run: c18Harness(c18Configs[1], func() []c18Call {
					// each call lacks another required file: each call's error is its own, also after the other call has failed
					return []c18Call{staticCall("ParseStatic(no stop_times.txt)", c18WithoutMember("stop_times.txt")), staticCall("ParseStatic(no routes.txt)", c18WithoutMember("routes.txt"))}
				})},
				&Scenario{Name: "journal-and-export", Bound: k, Run: c18Harness(c18Configs[2], func() []c18Call {
					return []c18Call{journalCall("journal+export(feed3)", c18Inputs.feeds[3]), journalCall("journal+export(feed5)", c18Inputs.feeds[5])}
				})},
				&Scenario{Name: "static-and-realtime", Bound: k, Run: c18Harness(c18Configs[2], func() []c18Call {
					return []c18Call{staticCall("ParseStatic(z)", c18Inputs.zip), rtCall("ParseRealtime(mixed)", c18Inputs.feeds[5])}
				})},
			)
			return s
		},
	})
}
