package main

// E2: owning Go's map-iteration order. The runtime (patched through -overlay by setup.sh)
// asks this hook for the random start of every `range` over a map. While a harness runs,
// a range executed by library code (caller PC inside github.com/jamespfennell/gtfs/...)
// over a single-bucket map (<= 8 entries, B == 0) gets its start offset either fixed to 0
// (mode off: insertion order, deterministic), or from a choice point with `count`
// alternatives - for a single bucket the achievable orders are exactly the rotations of the
// insertion order, so the choice point enumerates every order the runtime can produce.

import (
	"fmt"
	"runtime"
	"strings"
	_ "unsafe"
)

//go:linkname verifSetMapIterHook runtime.verifSetMapIterHook
func verifSetMapIterHook(f func(count int, B uint8, pc uintptr) (uintptr, bool))

const (
	mapFixed = iota // every library range starts at offset 0 (no choice point)
	mapDeviation    // a rotation is a deviation
	mapFree         // rotations are free (full product)
)

var (
	hookCtx          *Ctx
	hookBusy         bool
	hookMode         int
	uncontrolledMaps int
	mapSitesSeen     = map[string]int{}
	pcCache          = map[uintptr]string{}
)

func init() { verifSetMapIterHook(mapIterHook) }

func mapHookBegin(c *Ctx) { hookCtx = c; hookMode = mapFixed }
func mapHookEnd()         { hookCtx = nil }

// SetMapMode is called by a harness before running code under test.
func (c *Ctx) SetMapMode(m int) { hookMode = m }

func siteOf(pc uintptr) string {
	if s, ok := pcCache[pc]; ok {
		return s
	}
	s := ""
	if f := runtime.FuncForPC(pc); f != nil {
		name := f.Name()
		if strings.HasPrefix(name, "github.com/jamespfennell/gtfs") {
			_, line := f.FileLine(pc)
			s = fmt.Sprintf("%s:%d", strings.TrimPrefix(name, "github.com/jamespfennell/gtfs"), line)
		}
	}
	pcCache[pc] = s
	return s
}

func mapIterHook(count int, B uint8, pc uintptr) (uintptr, bool) {
	if hookCtx == nil || hookBusy {
		return 0, false
	}
	hookBusy = true
	defer func() { hookBusy = false }()
	site := siteOf(pc)
	if site == "" {
		return 0, false
	}
	if count < 2 {
		return 0, true
	}
	if B != 0 {
		uncontrolledMaps++
		return 0, false
	}
	mapSitesSeen[site]++
	switch hookMode {
	case mapDeviation:
		return uintptr(hookCtx.Choose("map"+site, count)), true
	case mapFree:
		return uintptr(hookCtx.Free("map"+site, count)), true
	}
	return 0, true
}
