package main

// E2: owning Go's map-iteration order. The runtime (patched through -overlay by setup.sh)
// asks this hook for the random start of every `range` over a map. While a harness runs,
// a range executed by library code (caller PC inside github.com/jamespfennell/gtfs/...)
// over a single-bucket map (<= 8 entries, B == 0) gets its start offset either fixed to 0
// (mode off: insertion order, deterministic), or from a choice point with `count`
// alternatives - for a single bucket the achievable orders are exactly the rotations of the
// insertion order, so the choice point enumerates every order the runtime can produce.

import (
	"runtime"
	"strconv"
	"strings"
	_ "unsafe"
)

//go:linkname verifSetMapIterHook runtime.verifSetMapIterHook
func verifSetMapIterHook(f func(count int, B uint8, pc uintptr) (uintptr, bool))

const (
	mapFixed     = iota // every library range starts at offset 0 (no choice point)
	mapDeviation        // a rotation is a deviation
	mapFree             // rotations are free (full product)
	mapUniform          // every library range starts at offset (mapRotation mod count): one choice for all sites
)

var mapRotation int

// SetMapRotation selects mode mapUniform with rotation r.
func (c *Ctx) SetMapRotation(r int) { hookMode = mapUniform; mapRotation = r }

var (
	hookCtx          *Ctx
	hookBusy         bool
	hookMode         int
	uncontrolledMaps int
	pcCachePC        []uintptr
	pcCacheSite      []string
)

func init() { verifSetMapIterHook(mapIterHook) }

func mapHookBegin(c *Ctx) { hookCtx = c; hookMode = mapFixed }
func mapHookEnd()         { hookCtx = nil }

// SetMapMode is called by a harness before running code under test.
func (c *Ctx) SetMapMode(m int) { hookMode = m }

//go:norace
func siteOf(pc uintptr) string {
	// slice-based cache: map operations are race-instrumented by the runtime even inside
	// //go:norace functions
	for i, p := range pcCachePC {
		if p == pc {
			return pcCacheSite[i]
		}
	}
	s := ""
	if f := runtime.FuncForPC(pc); f != nil {
		name := f.Name()
		if strings.HasPrefix(name, "github.com/jamespfennell/gtfs") {
			_, line := f.FileLine(pc)
			s = strings.TrimPrefix(name, "github.com/jamespfennell/gtfs") + ":" + strconv.Itoa(line)
		}
	}
	pcCachePC = append(pcCachePC, pc)
	pcCacheSite = append(pcCacheSite, s)
	return s
}

//go:norace
func mapIterHook(count int, B uint8, pc uintptr) (uintptr, bool) {
	if hookCtx == nil || hookBusy {
		return 0, false
	}
	hookBusy = true
	r, ok := mapIterHookLocked(count, B, pc)
	hookBusy = false
	return r, ok
}

//go:norace
func mapIterHookLocked(count int, B uint8, pc uintptr) (uintptr, bool) {
	site := siteOf(pc)
	if site == "" {
		return 0, false
	}
	if count < 2 {
		return 0, true
	}
	if B != 0 {
		uncontrolledMaps++
		return 0, false
	}
	switch hookMode {
	case mapDeviation:
		return uintptr(hookCtx.chooseNoRace("map"+site, count, false)), true
	case mapFree:
		return uintptr(hookCtx.chooseNoRace("map"+site, count, true)), true
	case mapUniform:
		return uintptr(mapRotation % count), true
	}
	return 0, true
}
