package main

// C09 - rejected static rows are inert; warnings describe the offending row.
//
// Enumerated: the base feed (2-4 rows per file) x EVERY rejection cause of EVERY file (blank
// required value per required column, unparseable number / time / date per such column,
// unknown id per required reference, blank stop id with a parent_station) x EVERY position
// (before the first, between any two, after the last valid row) x one inserted row (thorough:
// every ordered pair of insertions, same or different file) x all map rotations.
// Oracle (metamorphic): the dump without warnings equals the dump of the parse of the base
// feed; for agency rows (the only row-level warnings) the warning's file, 1-based row number
// and cell contents equal the spliced row - checked after parsing has finished.

import (
	"bytes"
	"encoding/csv"
	"fmt"
	"strings"

	"github.com/jamespfennell/gtfs"
	"github.com/jamespfennell/gtfs/warnings"
)

type rejection struct {
	file  string
	name  string
	cells map[string]string // overrides on a copy of a valid row
	times int               // > 1: the rejected row is inserted that many times in a row
}

var rejections = []rejection{
	{"agency.txt", "blank-agency_name", map[string]string{"agency_name": ""}, 1},
	{"agency.txt", "blank-agency_url", map[string]string{"agency_url": ""}, 1},
	{"agency.txt", "blank-agency_timezone", map[string]string{"agency_timezone": ""}, 1},
	// a rejected agency row naming another (loadable) zone: it must not decide the zone of the dates
	{"agency.txt", "blank-agency_name-with-another-timezone", map[string]string{"agency_name": "", "agency_timezone": "Asia/Tokyo"}, 1},
	{"agency.txt", "blank-agency_url-with-another-timezone", map[string]string{"agency_url": "", "agency_timezone": "Pacific/Auckland"}, 1},
	// a row of separators only: every cell blank (it is a row all the same: it is numbered, rejected and reported)
	{"agency.txt", "all-cells-blank", map[string]string{"*": ""}, 1},
	{"routes.txt", "blank-route_id", map[string]string{"route_id": ""}, 1},
	{"routes.txt", "blank-route_type", map[string]string{"route_type": ""}, 1},
	{"routes.txt", "unknown-agency_id", map[string]string{"agency_id": "NOSUCH"}, 1},
	{"routes.txt", "blank-agency_id-with-several-agencies", map[string]string{"agency_id": ""}, 1},
	{"stops.txt", "blank-stop_id", map[string]string{"stop_id": "", "parent_station": ""}, 1},
	{"stops.txt", "blank-stop_id-with-parent", map[string]string{"stop_id": "", "parent_station": "S1"}, 1},
	{"stops.txt", "blank-stop_id-with-parent-S2", map[string]string{"stop_id": "", "parent_station": "S2"}, 1},
	{"transfers.txt", "blank-from_stop_id", map[string]string{"from_stop_id": ""}, 1},
	{"transfers.txt", "blank-to_stop_id", map[string]string{"to_stop_id": ""}, 1},
	{"transfers.txt", "unknown-from_stop_id", map[string]string{"from_stop_id": "NOSUCH"}, 1},
	{"transfers.txt", "unknown-to_stop_id", map[string]string{"to_stop_id": "NOSUCH"}, 1},
	{"calendar.txt", "blank-service_id", map[string]string{"service_id": ""}, 1},
	{"calendar.txt", "bad-start_date", map[string]string{"start_date": "2024-01-01"}, 1},
	{"calendar.txt", "blank-start_date", map[string]string{"start_date": ""}, 1},
	{"calendar.txt", "bad-end_date", map[string]string{"end_date": "20241301"}, 1},
	{"calendar.txt", "blank-monday", map[string]string{"monday": ""}, 1},
	{"calendar.txt", "blank-sunday", map[string]string{"sunday": ""}, 1},
	{"calendar_dates.txt", "blank-service_id", map[string]string{"service_id": ""}, 1},
	{"calendar_dates.txt", "bad-date", map[string]string{"date": "yesterday"}, 1},
	{"calendar_dates.txt", "blank-date", map[string]string{"date": ""}, 1},
	{"calendar_dates.txt", "blank-exception_type", map[string]string{"exception_type": ""}, 1},
	// (the date of the rejected row lies far outside every service's range: 20301231)
	{"calendar_dates.txt", "bad-exception_type", map[string]string{"exception_type": "x"}, 1},
	{"calendar_dates.txt", "bad-exception_type-of-a-new-service", map[string]string{"service_id": "ZZNEWSERVICE", "exception_type": "2x"}, 1},
	{"shapes.txt", "blank-shape_id", map[string]string{"shape_id": ""}, 1},
	{"shapes.txt", "bad-shape_pt_lat", map[string]string{"shape_pt_lat": "north"}, 1},
	{"shapes.txt", "blank-shape_pt_lat", map[string]string{"shape_pt_lat": ""}, 1},
	{"shapes.txt", "bad-shape_pt_lon", map[string]string{"shape_pt_lon": "1,5"}, 1},
	{"shapes.txt", "bad-shape_pt_sequence", map[string]string{"shape_pt_sequence": "first"}, 1},
	{"shapes.txt", "blank-shape_pt_sequence", map[string]string{"shape_pt_sequence": ""}, 1},
	{"shapes.txt", "bad-shape_pt_lat-of-a-new-shape", map[string]string{"shape_id": "ZZNEWSHAPE", "shape_pt_lat": "north"}, 1},
	{"shapes.txt", "bad-shape_pt_sequence-of-a-new-shape", map[string]string{"shape_id": "ZZNEWSHAPE", "shape_pt_sequence": "1.5"}, 1},
	{"shapes.txt", "blank-shape_pt_lon-of-a-new-shape", map[string]string{"shape_id": "ZZNEWSHAPE", "shape_pt_lon": ""}, 1},
	{"calendar_dates.txt", "bad-date-of-a-new-service", map[string]string{"service_id": "ZZNEWSERVICE", "date": "20241345"}, 1},
	{"calendar_dates.txt", "blank-exception_type-of-a-new-service", map[string]string{"service_id": "ZZNEWSERVICE", "exception_type": ""}, 1},
	{"calendar.txt", "bad-end_date-of-a-new-service", map[string]string{"service_id": "ZZNEWSERVICE", "end_date": "2024"}, 1},
	// eight digits, month and day in range, but no such day in that month
	{"calendar.txt", "no-such-day-start_date", map[string]string{"start_date": "20230229"}, 1},
	{"calendar.txt", "no-such-day-end_date", map[string]string{"end_date": "20240431"}, 1},
	{"calendar_dates.txt", "no-such-day-date", map[string]string{"date": "20240631"}, 1},
	{"calendar_dates.txt", "no-such-day-date-of-a-new-service", map[string]string{"service_id": "ZZNEWSERVICE", "date": "20230230"}, 1},
	{"calendar.txt", "no-such-day-start_date-of-a-new-service", map[string]string{"service_id": "ZZNEWSERVICE", "start_date": "20220931"}, 1},
	{"stop_times.txt", "unknown-trip_id-twice-in-a-row", map[string]string{"trip_id": "NOSUCH"}, 2},
	{"stop_times.txt", "unknown-trip_id-three-times-in-a-row", map[string]string{"trip_id": "NOSUCH"}, 3},
	{"stop_times.txt", "unknown-stop_id-twice-in-a-row", map[string]string{"stop_id": "NOSUCH"}, 2},
	{"stop_times.txt", "blank-trip_id-twice-in-a-row", map[string]string{"trip_id": ""}, 2},
	{"frequencies.txt", "unknown-trip_id-twice-in-a-row", map[string]string{"trip_id": "NOSUCH"}, 2},
	{"shapes.txt", "bad-shape_pt_lat-twice-in-a-row", map[string]string{"shape_pt_lat": "north"}, 2},
	{"calendar_dates.txt", "bad-date-twice-in-a-row", map[string]string{"date": "yesterday"}, 2},
	{"trips.txt", "unknown-route_id-twice-in-a-row", map[string]string{"route_id": "NOSUCH"}, 2},
	{"agency.txt", "blank-agency_name-twice-in-a-row", map[string]string{"agency_name": ""}, 2},
	{"trips.txt", "unknown-route_id-with-the-trip_id-of-a-valid-row", map[string]string{"route_id": "NOSUCH", "trip_id": "=T1"}, 1},
	{"trips.txt", "unknown-service_id-with-the-trip_id-of-a-valid-row", map[string]string{"service_id": "NOSUCH", "trip_id": "=T2"}, 1},
	{"routes.txt", "unknown-agency_id-with-the-route_id-of-a-valid-row", map[string]string{"agency_id": "NOSUCH", "route_id": "=R1"}, 1},
	{"routes.txt", "blank-route_type-with-the-route_id-of-a-valid-row", map[string]string{"route_type": "", "route_id": "=R2"}, 1},
	{"calendar.txt", "bad-start_date-with-the-service_id-of-a-valid-row", map[string]string{"start_date": "soon", "service_id": "=C1"}, 1},
	{"agency.txt", "blank-agency_url-with-the-agency_id-of-a-valid-row", map[string]string{"agency_url": "", "agency_id": "=A1"}, 1},
	{"trips.txt", "blank-route_id", map[string]string{"route_id": ""}, 1},
	{"trips.txt", "blank-service_id", map[string]string{"service_id": ""}, 1},
	{"trips.txt", "blank-trip_id", map[string]string{"trip_id": ""}, 1},
	{"trips.txt", "unknown-route_id", map[string]string{"route_id": "NOSUCH"}, 1},
	{"trips.txt", "unknown-service_id", map[string]string{"service_id": "NOSUCH"}, 1},
	{"frequencies.txt", "blank-trip_id", map[string]string{"trip_id": ""}, 1},
	{"frequencies.txt", "unknown-trip_id", map[string]string{"trip_id": "NOSUCH"}, 1},
	{"frequencies.txt", "bad-start_time", map[string]string{"start_time": "noon"}, 1},
	{"frequencies.txt", "blank-end_time", map[string]string{"end_time": ""}, 1},
	{"frequencies.txt", "bad-end_time", map[string]string{"end_time": "12h30"}, 1},
	// the shape HH:MM:SS with something else than digits in it
	{"frequencies.txt", "bad-start_time-of-the-right-shape", map[string]string{"start_time": "0x:00:00"}, 1},
	{"frequencies.txt", "bad-end_time-of-the-right-shape", map[string]string{"end_time": "10:00:.5"}, 1},
	{"frequencies.txt", "bad-end_time-with-a-letter-O", map[string]string{"end_time": "1O:30:00"}, 1},
	{"frequencies.txt", "bad-start_time-with-a-sign", map[string]string{"start_time": "-1:00:00"}, 1},
	{"frequencies.txt", "bad-headway_secs", map[string]string{"headway_secs": "ten"}, 1},
	{"frequencies.txt", "blank-headway_secs", map[string]string{"headway_secs": ""}, 1},
	{"stop_times.txt", "blank-trip_id", map[string]string{"trip_id": ""}, 1},
	{"stop_times.txt", "unknown-trip_id", map[string]string{"trip_id": "NOSUCH"}, 1},
	{"stop_times.txt", "blank-stop_id", map[string]string{"stop_id": ""}, 1},
	{"stop_times.txt", "unknown-stop_id", map[string]string{"stop_id": "NOSUCH"}, 1},
	// rows that are invalid twice over
	{"stop_times.txt", "unknown-stop_id-and-unknown-trip_id", map[string]string{"stop_id": "NOSUCH", "trip_id": "NOSUCH"}, 1},
	{"stop_times.txt", "blank-stop_id-and-unknown-trip_id", map[string]string{"stop_id": "", "trip_id": "NOSUCH"}, 1},
	{"stop_times.txt", "unknown-stop_id-and-bad-stop_sequence", map[string]string{"stop_id": "NOSUCH", "stop_sequence": "x"}, 1},
	{"trips.txt", "unknown-route_id-and-unknown-service_id", map[string]string{"route_id": "NOSUCH", "service_id": "NOSUCH"}, 1},
	{"transfers.txt", "unknown-from_stop_id-and-unknown-to_stop_id", map[string]string{"from_stop_id": "NOSUCH", "to_stop_id": "NOSUCH2"}, 1},
	// a rejected row of a known trip whose valid rows come elsewhere in the file
	{"stop_times.txt", "unknown-stop_id-in-a-row-of-trip-T3", map[string]string{"stop_id": "NOSUCH", "trip_id": "=T3"}, 1},
	{"stop_times.txt", "unknown-stop_id-in-a-row-of-trip-T1", map[string]string{"stop_id": "NOSUCH", "trip_id": "=T1"}, 1},
	{"stop_times.txt", "blank-stop_id-in-a-row-of-trip-T2", map[string]string{"stop_id": "", "trip_id": "=T2"}, 1},
	{"stop_times.txt", "bad-stop_sequence", map[string]string{"stop_sequence": "x1"}, 1},
	{"stop_times.txt", "blank-stop_sequence", map[string]string{"stop_sequence": ""}, 1},
	{"stop_times.txt", "no-parseable-time", map[string]string{"arrival_time": "soon", "departure_time": ""}, 1},
}

var idColumnOf = map[string]string{"agency.txt": "agency_id", "routes.txt": "route_id", "stops.txt": "stop_id", "calendar.txt": "service_id", "trips.txt": "trip_id"}

type insertion struct {
	rej rejection
	pos int
	row []string
}

// spliceRejected inserts a rejected row (a copy of a valid row in which every non-reference cell has a valid value of its own (fresh text, another zone, enum value, number, date, time, colour), a fresh
// id where the file has one, and the offending cells) at position pos.
func spliceRejected(m *feedModel, rj rejection, pos int, tag string) []string {
	t := m.t(rj.file)
	src := t.Rows[pos%len(t.Rows)]
	for i := 0; i < len(t.Rows) && strings.HasPrefix(strings.Join(src, "|"), "ZZ"); i++ {
		src = t.Rows[(pos+i)%len(t.Rows)] // never copy an already spliced row
	}
	row := append([]string{}, src...)
	for i, sp := range staticSpecs[rj.file] {
		// every cell that is not a reference gets a valid value of its own, different from the row
		// it was copied from: whatever a rejected row leaks into the result then shows
		switch sp.Kind {
		case kText:
			row[i] = "  JUNK " + tag // begins with blanks (written without quotes): the warning quotes the cell as it is
		case kTextReq:
			row[i] = "JUNK " + tag
		case kZone:
			row[i] = "Asia/Tokyo"
		case kEnum:
			for k, e := range sp.Enum {
				if e == src[i] {
					row[i] = sp.Enum[(k+1)%len(sp.Enum)]
					break
				}
			}
		case kDecimalOpt, kDecimalReq:
			row[i] = "77.75"
		case kIntOpt, kIntReq:
			row[i] = "777"
		case kDate:
			row[i] = "20301231"
		case kTimeOfDay:
			row[i] = "23:59:58"
		case kColor:
			row[i] = "ABCDEF"
		case kBool:
			row[i] = map[string]string{"0": "1", "1": "0"}[src[i]]
		}
	}
	if idc, ok := idColumnOf[rj.file]; ok {
		row[t.col(idc)] = "ZZ" + tag
	}
	for col, v := range rj.cells {
		if col == "*" {
			for i := range row {
				row[i] = v
			}
			continue
		}
		if strings.HasPrefix(v, "=") {
			v = v[1:] // the literal id of a valid row of this file
		} else if v == "S1" || v == "S2" {
			// parent of the blank-id stop row: a real stop id
			sid, _ := m.t("stops.txt").get(int(v[1]-'1'), "stop_id")
			v = sid
		}
		row[t.col(col)] = v
	}
	rows := append([][]string{}, t.Rows[:pos]...)
	rows = append(rows, row)
	rows = append(rows, t.Rows[pos:]...)
	t.Rows = rows
	return row
}

func c09Harness(nInsert int) Harness {
	return func(c *Ctx) {
		// three trips of two stop times each (blocks T1 T1 T2 T2 T3 T3), so that a rejected row can carry
		// the id of a trip that is neither of its neighbours'
		n := baseCounts
		n.trips, n.stopTimes = 3, 6
		base := genStaticFeedN(c, false, n, nil, nil)
		// the causes are drawn first: some base options only matter for some files
		var causes []rejection
		agencyOrRoutes, hasMultiAgencyCause := false, false
		for k := 0; k < nInsert; k++ {
			rj := rejections[c.Free(fmt.Sprintf("insert%d.cause", k), len(rejections))]
			causes = append(causes, rj)
			if rj.file == "agency.txt" || rj.file == "routes.txt" {
				agencyOrRoutes = true
			}
			if rj.name == "blank-agency_id-with-several-agencies" {
				hasMultiAgencyCause = true // in a single-agency feed that row is valid, not rejected
			}
		}
		if agencyOrRoutes && !hasMultiAgencyCause && c.Free("single_agency_feed_with_blank_route_agency_ids", 2) == 1 {
			// one valid agency: routes may leave agency_id blank - also when another agency row is rejected
			a := base.t("agency.txt")
			a.Rows = a.Rows[:1]
			rt := base.t("routes.txt")
			for r := range rt.Rows {
				rt.set(r, "agency_id", "")
			}
		}
		// physical lines and data rows need not coincide: blank lines between rows, and a
		// quoted cell spanning two lines in the first valid agency row
		pres := presentation{BlankLines: c.Free("blank_lines_between_rows", 2) == 1}
		switch c.Free("unknown_columns", 3) {
		case 1:
			pres.ExtraCol = 4 // seventy in front: every column the parser knows then sits beyond index 64
		case 2:
			pres.ExtraCol = 5 // two at the end that share one name
		}
		if agencyOrRoutes && c.Free("multi_line_cell_in_first_agency_row", 2) == 1 {
			base.t("agency.txt").set(0, "agency_phone", "line one\nline two")
		}
		m := base.clone()
		var ins []insertion
		var desc []string
		for k := 0; k < nInsert; k++ {
			rj := causes[k]
			t := m.t(rj.file)
			pos := c.Free(fmt.Sprintf("insert%d.position", k), len(t.Rows)+1)
			if pos > len(t.Rows) {
				pos = len(t.Rows)
			}
			times := rj.times
			if times < 1 {
				times = 1
			}
			for rep := 0; rep < times; rep++ {
				row := spliceRejected(m, rj, pos+rep, fmt.Sprintf("%d.%d", k+1, rep))
				ins = append(ins, insertion{rj, pos + rep, row})
			}
			desc = append(desc, fmt.Sprintf("%s:%s@%d", rj.file, rj.name, pos))
		}
		bb := renderFeed(base, pres)
		b := renderFeed(m, pres)
		c.Input(hash64(string(b)), true, func() string { return strings.Join(desc, " ") + "\n" + m.text() })
		c.SetMapMode(mapFree)
		r, err, ok := parseStaticGuarded(c, b, gtfs.ParseStaticOptions{})
		c.SetMapMode(mapFixed)
		if !ok {
			return
		}
		if err != nil {
			c.Fail("feed-with-rejected-row-refused", "%v", err)
			return
		}
		rb, err, ok := parseStaticGuarded(c, bb, gtfs.ParseStaticOptions{})
		if !ok || err != nil {
			harnessBug("base feed does not parse: %v", err)
		}
		c.Steps(2 * len(m.Tables))
		o := staticDumpOpts{sortServices: true, noWarnings: true}
		wd, gd := dumpStatic(rb, o), dumpStatic(r, o)
		c.Outcome(gd)
		if wd != gd {
			sig := "rejected-row-not-inert:" + ins[0].rej.file + ":" + ins[0].rej.name
			if len(ins) > 1 {
				sig += "+" + ins[1].rej.file + ":" + ins[1].rej.name
			}
			c.Fail(sig, "inserting %v changed the entities produced from the other rows\n%s", desc, diffLines(wd, gd))
		}
		// warnings: every rejected agency row must be described exactly
		for k, in := range ins {
			if in.rej.file != "agency.txt" {
				continue
			}
			// 1-based row number of the inserted row among the data rows of the final table
			t := m.t("agency.txt")
			rowNo := 0
			for i, row := range t.Rows {
				if &row[0] == &in.row[0] {
					rowNo = i + 1
				}
			}
			// the row and the header as they stand in the file (unknown columns included): read back with encoding/csv
			recs, rerr := csv.NewReader(bytes.NewReader(renderCSV(t, pres))).ReadAll()
			if rerr != nil || rowNo < 1 || rowNo >= len(recs) {
				harnessBug("agency.txt does not read back: %v", rerr)
			}
			fileHeader, fileRow := recs[0], recs[rowNo]
			found := false
			for _, w := range r.Warnings {
				if _, isRow := w.Kind.(warnings.AgencyMissingValues); !isRow || string(w.File) != "agency.txt" || w.RowNumber != rowNo {
					continue
				}
				found = true
				if strings.Join(w.RowContent, "\x1f") != strings.Join(fileRow, "\x1f") {
					c.Fail("warning-row-content", "warning for agency.txt row %d carries %q, the row is %q", rowNo, w.RowContent, fileRow)
				}
				if strings.Join(w.HeaderContent, "\x1f") != strings.Join(fileHeader, "\x1f") {
					c.Fail("warning-header-content", "warning header %q, file header %q", w.HeaderContent, fileHeader)
				}
			}
			if !found {
				c.Fail("warning-missing-or-misnumbered", "no AgencyMissingValues warning for agency.txt row %d (insertion %d); warnings: %s", rowNo, k, dumpWarnings(r))
			}
			c.Witness("agency_row_warning_checked")
		}
		for _, in := range ins {
			if in.pos < len(base.t(in.rej.file).Rows) {
				c.Witness("rejected_row_before_a_valid_row")
			}
		}
	}
}

func dumpWarnings(r *gtfs.Static) string {
	var sb strings.Builder
	for _, w := range r.Warnings {
		fmt.Fprintf(&sb, "[%s row %d %q %T]", w.File, w.RowNumber, w.RowContent, w.Kind)
	}
	return sb.String()
}

func init() {
	register(&Check{
		ID:    "C09",
		Level: "fault_enumeration",
		Rule: fmt.Sprintf("base feed x %d rejection causes over all 10 files x every insertion position x all map rotations; quick: one inserted row; thorough: every ordered pair of insertions; ", len(rejections)) +
			"non-trivial = every distinct archive (each contains at least one rejected row); oracle = metamorphic equality with the parse of the base feed + exact warning content for agency rows",
		Assumptions: []string{"the rejection causes are those the statement lists (missing required value, unparseable required number/time/date, unknown required reference)", "row numbers count data rows from 1, as the existing test fixes"},
		Scenarios: func(tier string) []*Scenario {
			if tier == "thorough" {
				return []*Scenario{{Name: "one-rejected-row", Bound: -1, Run: c09Harness(1)}, {Name: "two-rejected-rows", Bound: -1, Run: c09Harness(2)}}
			}
			return []*Scenario{{Name: "one-rejected-row", Bound: -1, Run: c09Harness(1)}}
		},
	})
}
