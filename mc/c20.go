package main

// C20 - CSV export is a complete, parseable rendering of the journal.
//
// Enumerated: journals with 0..2 (thorough: 0..3) trips x 0..2 stop times each (free = full
// product over the counts) and, within k deviations, every presence pattern of track /
// arrival / departure / marked-past, direction, id shapes. Every cell of the base journal is
// a different value, so a misaligned or cross-wired column is visible at 0 deviations.
// Oracle: both tables are read back with encoding/csv under the header names and compared
// cell by cell with the stated encoding; the journal is dumped before and after.

import (
	"bytes"
	"encoding/csv"
	"fmt"
	"strconv"
	"strings"
	"time"

	"github.com/jamespfennell/gtfs"
	"github.com/jamespfennell/gtfs/journal"
)

var c20IDs = []string{"%d23456_L..N0%d", "", "with space %d", " lead%d", "é%d-x", "1A 0%d23+ PEL/BBR", "a&b<c>'d%d;e=f|g\\h", "\tlead%d", "trail%d ", "\u00a0nbsp%d\u00a0", "Caf\xe9-%d\xff", "-6213555%d_6..N01R", "+%d=@x"}

func c20Gen(c *Ctx, maxTrips int) *journal.Journal {
	j := &journal.Journal{}
	nTrips := c.Free("trips", maxTrips+1)
	// default is 2 trips so that the base already has several rows
	nTrips = (nTrips + 2) % (maxTrips + 1)
	tcount := 0
	for i := 0; i < nTrips; i++ {
		p := fmt.Sprintf("t%d.", i)
		idk := c.Choose(p+"idkind", len(c20IDs))
		mk := func(kind int, salt int) string {
			f := c20IDs[kind]
			if strings.Count(f, "%d") == 2 {
				return fmt.Sprintf(f, i+1, salt)
			}
			if strings.Count(f, "%d") == 1 {
				return fmt.Sprintf(f, salt+10*i)
			}
			return f
		}
		t := journal.Trip{
			TripUID:             mk(idk, 1),
			TripID:              mk(c.Choose(p+"tripid", len(c20IDs)), 2),
			RouteID:             []string{"L", "", "6X", "A&C<", "R\xe9"}[c.Choose(p+"route", 5)] + strconv.Itoa(i),
			DirectionID:         []gtfs.DirectionID{gtfs.DirectionID_True, gtfs.DirectionID_False, gtfs.DirectionID_Unspecified, gtfs.DirectionID(7)}[c.Choose(p+"dir", 4)],
			StartTime:           time.Unix(int64(1700000000+1000*i), 0).UTC(),
			VehicleID:           []string{"veh", "", "v v", "0L 1234+ 8AV/RPY &<>'", "v\xe9h\xc3"}[c.Choose(p+"vehicle", 5)] + strconv.Itoa(i),
			IsAssigned:          true,
			LastObserved:        time.Unix(int64(1700000500+1000*i), 0).In(zoneNY),
			NumUpdates:          []int{3, 0, 12345}[c.Choose(p+"updates", 3)] + i,
			NumScheduleChanges:  []int{10, -1, 0}[c.Choose(p+"changes", 3)] + 100*i,
			NumScheduleRewrites: []int{20, -1, 0}[c.Choose(p+"rewrites", 3)] + 1000*i,
		}
		switch c.Choose(p+"startkind", 4) {
		case 3:
			t.StartTime = time.Unix(int64(1700000000+1000*i), 600_000_000).UTC()
			t.LastObserved = time.Unix(int64(1700000500+1000*i), 999_000_000).In(zoneNY)
		case 1:
			t.StartTime = time.Time{}
		case 2:
			t.StartTime = time.Unix(0, 0).UTC()
		}
		switch c.Choose(p+"markedpast", 6) {
		case 5:
			mp := time.Time{} // the zero time (what a feed without header timestamp leaves behind) is a value too: -62135596800
			t.MarkedPast = &mp
		case 4:
			mp := time.Unix(int64(1700000900+1000*i), 750_000_000).UTC()
			t.MarkedPast = &mp
		case 1:
			mp := time.Unix(int64(1700000900+1000*i), 0).UTC()
			t.MarkedPast = &mp
		case 2:
			mp := time.Unix(0, 0).UTC() // the epoch is a value, not "absent"
			t.MarkedPast = &mp
		case 3:
			mp := time.Unix(-5, 0).UTC()
			t.MarkedPast = &mp
		}
		nStops := (c.Free(p+"stops", 3) + 2) % 3
		for s := 0; s < nStops; s++ {
			q := fmt.Sprintf("%ss%d.", p, s)
			tcount++
			if s > 0 && c.Choose(q+"same_as_previous", 2) == 1 {
				// a stop time repeated verbatim (every exported cell equal) is still a stop time of its own
				t.StopTimes = append(t.StopTimes, t.StopTimes[s-1])
				continue
			}
			st := journal.StopTime{
				StopID:       []string{"L0%dN", "", "stop %d", "<S&%d>'+", "st\xe9p-%d\x80"}[c.Choose(q+"stopid", 5)],
				LastObserved: time.Unix(int64(1700000000+1000*i+10*s+7), 0).UTC(),
			}
			if strings.Contains(st.StopID, "%d") {
				st.StopID = fmt.Sprintf(st.StopID, tcount)
			}
			switch c.Choose(q+"track", 5) {
			case 4:
				v := fmt.Sprintf("tr\xffck %d", tcount)
				st.Track = &v
			case 0:
				v := fmt.Sprintf("A%d", tcount)
				st.Track = &v
			case 2:
				v := ""
				st.Track = &v
			case 3:
				v := fmt.Sprintf("<%d&'+>", tcount)
				st.Track = &v
			}
			optTime := func(label string, base int64, basePresent bool) *time.Time {
				k := c.Choose(label, 7)
				if !basePresent && k < 4 {
					k = []int{1, 0, 2, 3}[k]
				}
				switch k {
				case 0:
					v := time.Unix(base, 0).In(zoneNY)
					return &v
				case 2:
					v := time.Unix(0, 0).UTC() // the epoch is a value, not "absent"
					return &v
				case 3:
					v := time.Unix(-7, 0).UTC()
					return &v
				case 4:
					v := time.Unix(base, 500_000_000).UTC() // Unix seconds are the floor, not the nearest
					return &v
				case 5:
					v := time.Unix(base, 999_999_999).In(zoneNY)
					return &v
				case 6:
					v := time.Time{}
					return &v
				}
				return nil
			}
			st.ArrivalTime = optTime(q+"arr", int64(1700000000+1000*i+10*s+1), true)
			st.DepartureTime = optTime(q+"dep", int64(1700000000+1000*i+10*s+2), true)
			st.MarkedPast = optTime(q+"past", int64(1700000000+1000*i+10*s+3), false)
			t.StopTimes = append(t.StopTimes, st)
		}
		j.Trips = append(j.Trips, t)
	}
	return j
}

func unixOrBlank(t *time.Time) string {
	if t == nil {
		return ""
	}
	return strconv.FormatInt(t.Unix(), 10)
}

func strOrBlank(s *string) string {
	if s == nil {
		return ""
	}
	return *s
}

func readTable(b []byte) (header []string, rows []map[string]string, err error) {
	r := csv.NewReader(bytes.NewReader(b))
	r.FieldsPerRecord = -1
	all, err := r.ReadAll()
	if err != nil {
		return nil, nil, err
	}
	if len(all) == 0 {
		return nil, nil, fmt.Errorf("no header row")
	}
	header = all[0]
	for _, rec := range all[1:] {
		if len(rec) != len(header) {
			return nil, nil, fmt.Errorf("row %q has %d cells, header has %d", rec, len(rec), len(header))
		}
		m := map[string]string{}
		for i, h := range header {
			m[h] = rec[i]
		}
		rows = append(rows, m)
	}
	return
}

// c20Sizes: journals of many trips (around powers of two, not multiples of 8, thousands) with a
// fixed pattern of stop times per trip: sizes at which buffers grow or work is split up.
var c20TripCounts = []int{7, 8, 9, 63, 64, 65, 255, 256, 257, 511, 512, 513, 517, 1003, 1024, 1025, 2049, 4099}
var c20StopPatterns = []string{"i mod 3 stop times", "one each", "none except the last trip (3)", "two each, none in the first trip"}

func c20Sizes(c *Ctx) {
	n := c20TripCounts[c.Free("trips", len(c20TripCounts))]
	pat := c.Free("stop_times", len(c20StopPatterns))
	j := &journal.Journal{}
	for i := 0; i < n; i++ {
		t := journal.Trip{TripUID: fmt.Sprintf("%d_L..N%d", 1700000000+60*i, i), TripID: fmt.Sprintf("%06d_L..N", i), RouteID: "L", DirectionID: gtfs.DirectionID(i % 3),
			StartTime: time.Unix(int64(1700000000+60*i), 0).UTC(), VehicleID: fmt.Sprintf("0L %d", i), IsAssigned: true, LastObserved: time.Unix(int64(1700000500+60*i), 0).UTC(), NumUpdates: i}
		k := 0
		switch pat {
		case 0:
			k = i % 3
		case 1:
			k = 1
		case 2:
			if i == n-1 {
				k = 3
			}
		case 3:
			if i > 0 {
				k = 2
			}
		}
		for s := 0; s < k; s++ {
			a := time.Unix(int64(1700000000+60*i+s), 0).UTC()
			tr := fmt.Sprintf("T%d", s)
			t.StopTimes = append(t.StopTimes, journal.StopTime{StopID: fmt.Sprintf("L%02d-%d", s, i), Track: &tr, ArrivalTime: &a, LastObserved: a})
		}
		j.Trips = append(j.Trips, t)
	}
	c.Witness("journal_of_many_trips")
	c20Verify(c, j)
}

// c20OtherJournal is exported after every journal under study (its tables are longer than most).
var c20OtherJournal = func() *journal.Journal {
	j := &journal.Journal{}
	for i := 0; i < 3; i++ {
		t := journal.Trip{TripUID: fmt.Sprintf("99%d_OTHER", i), TripID: fmt.Sprintf("other-%d", i), RouteID: "OTHER", VehicleID: "other vehicle", StartTime: time.Unix(int64(1600000000+i), 0).UTC(), LastObserved: time.Unix(1600000100, 0).UTC()}
		for s := 0; s < 4; s++ {
			t.StopTimes = append(t.StopTimes, journal.StopTime{StopID: fmt.Sprintf("OTHER-STOP-%d", s), LastObserved: time.Unix(1600000100, 0).UTC()})
		}
		j.Trips = append(j.Trips, t)
	}
	return j
}()

func c20Harness(maxTrips int) Harness {
	return func(c *Ctx) { c20Verify(c, c20Gen(c, maxTrips)) }
}

func c20Verify(c *Ctx, j *journal.Journal) {
	{
		before := dumpJournal(j)
		nst := 0
		for i := range j.Trips {
			nst += len(j.Trips[i].StopTimes)
		}
		c.Input(hash64(before), len(j.Trips) > 0, func() string { return before })
		var exp *journal.CsvExport
		var err error
		pan, where, text, stack := guard(func() { exp, err = j.ExportToCsv() })
		if pan {
			c.Fail("panic:"+where+":"+text, "ExportToCsv panicked: %s\n%s", text, stack)
			return
		}
		c.Steps(1 + len(j.Trips) + nst)
		if err != nil {
			c.Fail("export-error", "ExportToCsv returned an error for a journal without CSV metacharacters: %v", err)
			return
		}
		if after := dumpJournal(j); after != before {
			c.Fail("journal-modified", "exporting modified the journal:\n%s", diffLines(before, after))
			return
		}
		c.Outcome(string(exp.TripsCsv) + "\x00" + string(exp.StopTimesCsv))
		_, trows, err := readTable(exp.TripsCsv)
		if err != nil {
			c.Fail("trips-table-unparseable", "%v\n%s", err, exp.TripsCsv)
			return
		}
		_, srows, err := readTable(exp.StopTimesCsv)
		if err != nil {
			c.Fail("stop-times-table-unparseable", "%v\n%s", err, exp.StopTimesCsv)
			return
		}
		if len(trows) != len(j.Trips) {
			c.Fail("trips-row-count", "trips table has %d rows for %d trips\n%s", len(trows), len(j.Trips), exp.TripsCsv)
			return
		}
		if len(srows) != nst {
			c.Fail("stop-times-row-count", "stop-times table has %d rows for %d stop times\n%s", len(srows), nst, exp.StopTimesCsv)
			return
		}
		k := 0
		for i := range j.Trips {
			t := &j.Trips[i]
			dir := ""
			switch t.DirectionID {
			case gtfs.DirectionID_False:
				dir = "0"
			case gtfs.DirectionID_True:
				dir = "1"
			}
			want := map[string]string{
				"trip_uid": t.TripUID, "trip_id": t.TripID, "route_id": t.RouteID, "direction_id": dir,
				"start_time": strconv.FormatInt(t.StartTime.Unix(), 10), "vehicle_id": t.VehicleID,
				"last_observed": strconv.FormatInt(t.LastObserved.Unix(), 10), "marked_past": unixOrBlank(t.MarkedPast),
				"num_updates": strconv.Itoa(t.NumUpdates), "num_schedule_changes": strconv.Itoa(t.NumScheduleChanges), "num_schedule_rewrites": strconv.Itoa(t.NumScheduleRewrites),
			}
			for col, w := range want {
				g, ok := trows[i][col]
				if !ok {
					c.Fail("trips-column-missing:"+col, "trips table has no column %q\n%s", col, exp.TripsCsv)
				} else if g != w {
					c.Fail("trips-cell:"+col, "trips row %d column %s = %q, want %q\n%s", i, col, g, w, exp.TripsCsv)
				}
			}
			for s := range t.StopTimes {
				st := &t.StopTimes[s]
				want := map[string]string{
					"trip_uid": t.TripUID, "stop_id": st.StopID, "track": strOrBlank(st.Track), "arrival_time": unixOrBlank(st.ArrivalTime),
					"departure_time": unixOrBlank(st.DepartureTime), "last_observed": strconv.FormatInt(st.LastObserved.Unix(), 10), "marked_past": unixOrBlank(st.MarkedPast),
				}
				for col, w := range want {
					g, ok := srows[k][col]
					if !ok {
						c.Fail("stop-times-column-missing:"+col, "stop-times table has no column %q\n%s", col, exp.StopTimesCsv)
					} else if g != w {
						c.Fail("stop-times-cell:"+col, "stop-times row %d (trip %d stop %d) column %s = %q, want %q\n%s", k, i, s, col, g, w, exp.StopTimesCsv)
					}
				}
				k++
			}
		}
		// the tables belong to the caller: exporting another journal afterwards leaves them as they were
		t1, s1 := string(exp.TripsCsv), string(exp.StopTimesCsv)
		var err2 error
		if pan, where, text, _ := guard(func() { _, err2 = c20OtherJournal.ExportToCsv() }); pan || err2 != nil {
			c.Fail("panic:"+where+":"+text, "exporting a second journal: %s %v", text, err2)
			return
		}
		if string(exp.TripsCsv) != t1 || string(exp.StopTimesCsv) != s1 {
			c.Fail("earlier-export-overwritten", "the tables of this export changed when another journal was exported afterwards\nbefore:\n%s%s\nafter:\n%s%s", t1, s1, exp.TripsCsv, exp.StopTimesCsv)
			return
		}
		if len(j.Trips) >= 2 && nst >= 3 {
			c.Witness("several_trips_and_stop_times")
		}
		if len(j.Trips) > 0 && nst == 0 {
			c.Witness("trips_without_stop_times")
		}
	}
}

func init() {
	register(&Check{
		ID:    "C20",
		Level: "model_checking",
		Rule: "journals with 0..2 trips x 0..2 stop times per trip (full product over the counts) x k <= 2 deviations (thorough: 0..3 trips with k <= 2, 0..2 trips with k <= 3, 0..1 trip with k <= 4) over presence of track/arrival/departure/marked-past, direction (0/1/unspecified/out-of-range), id shapes (NYCT-like, empty, spaces, leading space, non-ASCII, invalid UTF-8, characters such as + & < > ' ; | \\ that are special in other formats but not in CSV), counters (negative, zero, large), zero start times, present optional times that are the zero time.Time, instants with sub-second parts of 0.5 s and more, a stop time repeated verbatim after itself; journals of 7..4099 trips (around powers of two, not multiples of 8) x 4 patterns of stop times per trip; " +
			"non-trivial = distinct journals with at least one trip; oracle = read back with encoding/csv by header name, cell-by-cell, journal dumped before/after, tables re-read after another journal was exported",
		Assumptions: []string{"ids and tracks are free of comma, double quote, CR and LF, as the property stipulates", "header names of the two tables are part of the observable interface"},
		Scenarios: func(tier string) []*Scenario {
			if tier == "thorough" {
				// sized to finish well inside the time cap (the product over three trips with three deviations alone
				// is beyond it): more trips with fewer deviations, fewer trips with more
				return []*Scenario{{Name: "journals<=3trips", Bound: 2, Run: c20Harness(3)}, {Name: "journals<=2trips-k3", Bound: 3, Run: c20Harness(2)}, {Name: "journals<=1trip-k4", Bound: 4, Run: c20Harness(1)}, {Name: "sizes", Bound: -1, Run: c20Sizes}}
			}
			return []*Scenario{{Name: "journals<=2trips", Bound: 2, Run: c20Harness(2)}, {Name: "sizes", Bound: -1, Run: c20Sizes}}
		},
	})
}
