package main

// C04 - trips and vehicles associated in a feed point at each other.
// C07 shares the generator (assocMsg): see c07.go.
//
// Enumerated (full product): for one and for two (trip, vehicle) pairs, the association
// expressed by {trip update carrying a vehicle descriptor, vehicle position carrying a trip
// descriptor, both} x vehicle descriptor {id, label only, none, present but empty, present with empty strings} x trip descriptor {trip id,
// route+direction+start} x optional unrelated trip / unrelated vehicle / alert mentioning
// the trip, x ALL entity orders (n <= 5) x all map rotations.
// Oracle (invariant, no expected value): both sides of every association exist, both links
// are set and lead to each other, and what is reached has the content of the top-level entry;
// without an association both links are nil.

import (
	"fmt"
	"strings"

	"github.com/jamespfennell/gtfs"
	"github.com/jamespfennell/gtfs/extensions/nycttrips"
	gtfsrt "github.com/jamespfennell/gtfs/proto"
	"google.golang.org/protobuf/proto"
)

type assocPair struct {
	expr  int // 0 TU only, 1 VP only, 2 TU+VP both express it, 3 TU+VP only the TU expresses it, 4 TU+VP only the VP expresses it, 5 TU+VP and neither does
	vdesc int // 0 id, 1 label only, 2 none, 3 present but empty (on the vehicle position only)
	tdesc int // 0 trip id, 1 route+direction+start
	td    *gtfsrt.TripDescriptor
	vd    *gtfsrt.VehicleDescriptor
	// markers to find the entries in the result
	vpStop string // stop_id of the vehicle position entity ("" if none)
	tuStop string // stop id of the trip update's only stop time update ("" if none)
	assoc  bool
}

type assocMsg struct {
	msg                                   *gtfsrt.FeedMessage
	pairs                                 []*assocPair
	key                                   string // identifies the message up to entity order
	conflicts                             bool
	extraTrip, extraVehicle, alertMention bool
}

var exprNames = []string{"TU", "VP", "TU+VP", "TU(assoc)+VP", "TU+VP(assoc)", "TU+VP(unassociated)", "TU+VP-in-one-entity"}
var vdescNames = []string{"id", "label", "none", "empty", "empty-strings"}
var tdescNames = []string{"tripid", "route+dir+start"}

// tripRelationships: unset, then every value of the wire enum
var tripRelationships = []*gtfsrt.TripDescriptor_ScheduleRelationship{nil, gtfsrt.TripDescriptor_SCHEDULED.Enum(), gtfsrt.TripDescriptor_ADDED.Enum(), gtfsrt.TripDescriptor_UNSCHEDULED.Enum(),
	gtfsrt.TripDescriptor_CANCELED.Enum(), gtfsrt.TripDescriptor_REPLACEMENT.Enum(), gtfsrt.TripDescriptor_DUPLICATED.Enum(), gtfsrt.TripDescriptor_DELETED.Enum()}

// assocVariant: 0 plain; 1 the trip descriptors carry a schedule relationship (choice point);
// 2 an alert naming the trips of all pairs (and a stop) may be added; 3 as 1 without the relationship:
// optional fields on the vehicle position, is_deleted on either entity
func genAssoc(c *Ctx, nPairs int, withExtras bool, withConflicts bool) *assocMsg {
	return genAssocV(c, nPairs, withExtras, withConflicts, 0)
}

func genAssocV(c *Ctx, nPairs int, withExtras bool, withConflicts bool, variant int) *assocMsg {
	am := &assocMsg{}
	var ents []*gtfsrt.FeedEntity
	var key strings.Builder
	// the trips of the pairs may share their trip_id and differ in the start date only
	shareID := variant == 2 && c.Free("pairs_share_their_trip_id", 2) == 1
	if shareID {
		key.WriteString("sharedTripID ")
	}
	for i := 0; i < nPairs; i++ {
		p := fmt.Sprintf("pair%d.", i+1)
		nExpr := 6
		if variant == 1 {
			nExpr = 7 // also: ONE entity carrying both a trip update (naming the vehicle) and a vehicle position
		}
		ap := &assocPair{expr: c.Free(p+"expressed_by", nExpr), vdesc: c.Free(p+"vehicle_desc", 5), tdesc: c.Free(p+"trip_desc", 2)}
		bothKinds := false
		if ap.expr == 6 {
			ap.expr = 0
			bothKinds = ap.vdesc <= 1 // the vehicle must be findable by its identifier
		}
		if ap.tdesc == 0 && shareID {
			ap.td = &gtfsrt.TripDescriptor{TripId: sp("T"), RouteId: sp("R"), StartDate: sp(fmt.Sprintf("2024010%d", i+1))}
		} else if ap.tdesc == 0 {
			ap.td = &gtfsrt.TripDescriptor{TripId: sp(fmt.Sprintf("T%d", i+1)), RouteId: sp("R")}
		} else {
			ap.td = &gtfsrt.TripDescriptor{RouteId: sp("R"), DirectionId: cp(new(uint32)), StartTime: sp(fmt.Sprintf("0%d:00:00", i+1)), StartDate: sp("20240102")}
		}
		if variant == 1 {
			k := c.Free(p+"schedule_relationship", len(tripRelationships))
			ap.td.ScheduleRelationship = tripRelationships[k]
			if k > 0 {
				fmt.Fprintf(&key, "rel=%s ", tripRelationships[k])
			}
		}
		switch ap.vdesc {
		case 0:
			ap.vd = &gtfsrt.VehicleDescriptor{Id: sp(fmt.Sprintf("V%d", i+1)), Label: sp("common label")}
		case 1:
			ap.vd = &gtfsrt.VehicleDescriptor{Label: sp(fmt.Sprintf("label %d", i+1))}
		}
		hasTU := ap.expr != 1
		hasVP := ap.expr != 0
		tuNamesVehicle := ap.expr == 0 || ap.expr == 2 || ap.expr == 3
		vpNamesTrip := ap.expr == 1 || ap.expr == 2 || ap.expr == 4
		// expr 5: both entities present, neither names the other: no association at all
		var tuVD, vpVD **gtfsrt.VehicleDescriptor
		if hasTU {
			ap.tuStop = fmt.Sprintf("TS%d", i+1)
			tu := &gtfsrt.TripUpdate{Trip: cloneTD(ap.td), StopTimeUpdate: []*gtfsrt.TripUpdate_StopTimeUpdate{{StopId: sp(ap.tuStop)}}}
			if variant == 3 && c.Free(p+"trip_update_without_stop_time_updates", 2) == 1 {
				tu.StopTimeUpdate = nil // a cancelled or just announced trip: it is the trip's own entity all the same
				tu.Delay = cp32(120)
				key.WriteString("tuWithoutStops ")
			}
			if variant == 3 && c.Free(p+"trip_update_timestamp", 2) == 1 {
				tu.Timestamp = u64p(1700000555) // the trip update's own timestamp says nothing about when the vehicle was last heard of
				key.WriteString("tuTimestamp ")
			}
			if ap.vd != nil && tuNamesVehicle {
				tu.Vehicle = cloneVD(ap.vd)
				if variant == 3 && ap.vdesc == 0 && ap.expr == 3 && c.Free(p+"trip_update_names_the_vehicle_by_id_only", 2) == 1 {
					// {id} and {id, label} are different vehicle identifiers: two vehicles, in every entity order
					// (only where the position entity does not name the trip: otherwise the trip would be claimed
					// by two vehicles, which is a conflict)
					tu.Vehicle = &gtfsrt.VehicleDescriptor{Id: ap.vd.Id}
					key.WriteString("tuVehicleByIdOnly ")
				}
			}
			if tu.Vehicle != nil {
				tuVD = &tu.Vehicle
			}
			e := &gtfsrt.FeedEntity{Id: sp(fmt.Sprintf("tu%d", i+1)), TripUpdate: tu}
			if bothKinds {
				// the same entity also carries a vehicle position of that vehicle (without a trip descriptor):
				// the trip update in it associates trip and vehicle all the same
				e.Vehicle = &gtfsrt.VehiclePosition{Vehicle: cloneVD(ap.vd), StopId: sp("BOTH")}
				key.WriteString("bothKindsInOneEntity ")
			}
			if (variant == 1 || variant == 3) && c.Free(p+"trip_update_entity_is_deleted", 2) == 1 {
				yes := true
				e.IsDeleted = &yes // the library does not act on is_deleted: the entity counts like any other
				key.WriteString("tuDeleted ")
			}
			ents = append(ents, e)
		}
		if hasVP {
			ap.vpStop = fmt.Sprintf("VS%d", i+1)
			vp := &gtfsrt.VehiclePosition{StopId: sp(ap.vpStop)}
			if vpNamesTrip {
				vp.Trip = cloneTD(ap.td)
				if variant == 3 && ap.tdesc == 0 && ap.expr == 4 && c.Free(p+"position_names_a_trip_by_trip_id_only", 2) == 1 {
					// {trip_id} and {trip_id, route_id} are different trip identifiers: two trips, in every entity order
					// (only where the trip update names no vehicle: otherwise the vehicle would serve two trips)
					vp.Trip = &gtfsrt.TripDescriptor{TripId: ap.td.TripId}
					key.WriteString("vpTripByIdOnly ")
				}
			}
			if ap.vd != nil {
				vp.Vehicle = cloneVD(ap.vd)
			} else if ap.vdesc == 3 {
				vp.Vehicle = &gtfsrt.VehicleDescriptor{} // a descriptor without any field: still a vehicle without id
			} else if ap.vdesc == 4 {
				vp.Vehicle = &gtfsrt.VehicleDescriptor{Id: sp(""), Label: sp("")} // fields present but empty: still no id
			}
			if ap.vd != nil {
				vpVD = &vp.Vehicle
			}
			if variant == 1 && tuVD != nil && vpVD != nil && ap.td.ScheduleRelationship == nil {
				// an attribute of the vehicle that is not part of its identifier, stated by one of the two
				// descriptors only (or differently): it is one vehicle all the same
				acc, inacc := gtfsrt.VehicleDescriptor_WHEELCHAIR_ACCESSIBLE, gtfsrt.VehicleDescriptor_WHEELCHAIR_INACCESSIBLE
				switch wa := c.Free(p+"wheelchair_accessible_stated_by", 4); wa {
				case 1:
					(*tuVD).WheelchairAccessible = &acc
					key.WriteString("wheelchairOnTU ")
				case 2:
					(*vpVD).WheelchairAccessible = &acc
					key.WriteString("wheelchairOnVP ")
				case 3:
					(*tuVD).WheelchairAccessible, (*vpVD).WheelchairAccessible = &acc, &inacc
					key.WriteString("wheelchairDiffers ")
				}
			}
			if variant == 1 || variant == 3 {
				// optional fields of the position entity: what is reached through the links must be the
				// very content of the top-level entry, whichever fields it has
				f := c.Free(p+"vehicle_position_fields", 4)
				fmt.Fprintf(&key, "vpFields=%d ", f)
				switch f {
				case 1:
					vp.CurrentStopSequence = u32p(7) // without current_status
				case 2:
					vp.CurrentStatus = gtfsrt.VehiclePosition_STOPPED_AT.Enum()
				case 3:
					lat, lon := float32(40.5), float32(-73.25)
					vp.CurrentStopSequence, vp.CurrentStatus = u32p(9), gtfsrt.VehiclePosition_INCOMING_AT.Enum()
					vp.Position = &gtfsrt.Position{Latitude: &lat, Longitude: &lon}
					vp.Timestamp = u64p(1700000123)
					vp.OccupancyPercentage = u32p(55)
					vp.CongestionLevel = gtfsrt.VehiclePosition_CONGESTION.Enum()
				}
			}
			e := &gtfsrt.FeedEntity{Id: sp(fmt.Sprintf("vp%d", i+1)), Vehicle: vp}
			if (variant == 1 || variant == 3) && c.Free(p+"vehicle_entity_is_deleted", 2) == 1 {
				yes := true
				e.IsDeleted = &yes
				key.WriteString("vpDeleted ")
			}
			ents = append(ents, e)
		}
		// the feed associates trip and vehicle iff the trip update names a (non-empty) vehicle or
		// the vehicle position names the trip
		ap.assoc = (hasTU && tuNamesVehicle && ap.vd != nil) || (hasVP && vpNamesTrip)
		am.pairs = append(am.pairs, ap)
		fmt.Fprintf(&key, "pair%d{%s,%s,%s} ", i+1, exprNames[ap.expr], vdescNames[ap.vdesc], tdescNames[ap.tdesc])
	}
	if withExtras {
		if c.Free("extra.unrelated_trip", 2) == 1 {
			am.extraTrip = true
			ents = append(ents, &gtfsrt.FeedEntity{Id: sp("tu9"), TripUpdate: &gtfsrt.TripUpdate{Trip: &gtfsrt.TripDescriptor{TripId: sp("A9")}, StopTimeUpdate: []*gtfsrt.TripUpdate_StopTimeUpdate{{StopId: sp("TS9")}}}})
			key.WriteString("extraTrip ")
		}
		if c.Free("extra.unrelated_vehicle", 2) == 1 {
			am.extraVehicle = true
			ents = append(ents, &gtfsrt.FeedEntity{Id: sp("vp9"), Vehicle: &gtfsrt.VehiclePosition{Vehicle: &gtfsrt.VehicleDescriptor{Id: sp("A9")}, StopId: sp("VS9")}})
			key.WriteString("extraVehicle ")
		}
		if c.Free("extra.trip_update_with_an_empty_trip_descriptor", 2) == 1 {
			// a descriptor that is present but names nothing: whatever it yields, it associates nothing
			ents = append(ents, &gtfsrt.FeedEntity{Id: sp("tu0"), TripUpdate: &gtfsrt.TripUpdate{Trip: &gtfsrt.TripDescriptor{}, StopTimeUpdate: []*gtfsrt.TripUpdate_StopTimeUpdate{{StopId: sp("TS0")}}}})
			key.WriteString("emptyTripDescriptor ")
		}
		if c.Free("extra.alert_names_two_new_trips", 2) == 1 {
			ents = append(ents, &gtfsrt.FeedEntity{Id: sp("alert2"), Alert: &gtfsrt.Alert{InformedEntity: []*gtfsrt.EntitySelector{
				{Trip: &gtfsrt.TripDescriptor{TripId: sp("N1")}}, {Trip: &gtfsrt.TripDescriptor{TripId: sp("N2"), RouteId: sp("R")}}, {Trip: &gtfsrt.TripDescriptor{TripId: sp("A9")}}}}})
			key.WriteString("alertTwoNewTrips ")
		}
		if c.Free("extra.alert_mentions_trip", 2) == 1 {
			am.alertMention = true
			ents = append(ents, &gtfsrt.FeedEntity{Id: sp("alert1"), Alert: &gtfsrt.Alert{InformedEntity: []*gtfsrt.EntitySelector{{Trip: cloneTD(am.pairs[0].td)}, {StopId: sp("X")}}}})
			key.WriteString("alertMention ")
		}
	}
	if variant == 2 && c.Free("alert_names_the_trips_of_all_pairs", 2) == 1 {
		a := &gtfsrt.Alert{}
		for _, ap := range am.pairs {
			a.InformedEntity = append(a.InformedEntity, &gtfsrt.EntitySelector{Trip: cloneTD(ap.td)})
		}
		a.InformedEntity = append(a.InformedEntity, &gtfsrt.EntitySelector{StopId: sp("X")})
		ents = append(ents, &gtfsrt.FeedEntity{Id: sp("alertAll"), Alert: a})
		key.WriteString("alertNamesAllPairs ")
	}
	if withConflicts {
		switch c.Free("conflict", 5) {
		case 4: // trip 1 also claimed by a position entity that names no vehicle at all
			am.conflicts = true
			ents = append(ents, &gtfsrt.FeedEntity{Id: sp("vp1d"), Vehicle: &gtfsrt.VehiclePosition{Trip: cloneTD(am.pairs[0].td), StopId: sp("NOBODY")}})
			key.WriteString("tripClaimedByIdlessVehicle ")
		case 1: // a second, different trip update for trip 1
			am.conflicts = true
			ents = append(ents, &gtfsrt.FeedEntity{Id: sp("tu1b"), TripUpdate: &gtfsrt.TripUpdate{Trip: cloneTD(am.pairs[0].td), StopTimeUpdate: []*gtfsrt.TripUpdate_StopTimeUpdate{{StopId: sp("OTHER")}}}})
			key.WriteString("dupTU ")
		case 2: // a second vehicle position for vehicle 1 (or another id-less one)
			am.conflicts = true
			vp := &gtfsrt.VehiclePosition{StopId: sp("OTHERV")}
			if am.pairs[0].vd != nil {
				vp.Vehicle = cloneVD(am.pairs[0].vd)
			}
			ents = append(ents, &gtfsrt.FeedEntity{Id: sp("vp1b"), Vehicle: vp})
			key.WriteString("dupVP ")
		case 3: // trip 1 claimed by a second vehicle
			am.conflicts = true
			ents = append(ents, &gtfsrt.FeedEntity{Id: sp("vp1c"), Vehicle: &gtfsrt.VehiclePosition{Vehicle: &gtfsrt.VehicleDescriptor{Id: sp("Z")}, Trip: cloneTD(am.pairs[0].td), StopId: sp("ZS")}})
			key.WriteString("tripClaimedTwice ")
		}
	}
	if len(ents) <= 5 {
		perm := c.Perm("order", len(ents))
		out := make([]*gtfsrt.FeedEntity, len(ents))
		for i, j := range perm {
			out[i] = ents[j]
		}
		ents = out
	} else {
		switch c.Free("order", 4) {
		case 1:
			for i, j := 0, len(ents)-1; i < j; i, j = i+1, j-1 {
				ents[i], ents[j] = ents[j], ents[i]
			}
		case 2:
			ents = append(ents[1:], ents[0])
		case 3:
			ents = append([]*gtfsrt.FeedEntity{ents[len(ents)-1]}, ents[:len(ents)-1]...)
		}
	}
	am.msg = newFeed(cp(&tsAlphabet[0]))
	am.msg.Entity = ents
	am.key = key.String()
	return am
}

var conflictingMessageCache []byte

// conflictingMessage: trips T1 and T2 each claimed by two vehicles, vehicle V1 claimed by two trips.
func conflictingMessage() []byte {
	if conflictingMessageCache == nil {
		m := newFeed(cp(&tsAlphabet[0]))
		td := func(i int) *gtfsrt.TripDescriptor {
			return &gtfsrt.TripDescriptor{TripId: sp(fmt.Sprintf("T%d", i)), RouteId: sp("R")}
		}
		vd := func(i int) *gtfsrt.VehicleDescriptor {
			return &gtfsrt.VehicleDescriptor{Id: sp(fmt.Sprintf("V%d", i)), Label: sp("common label")}
		}
		m.Entity = []*gtfsrt.FeedEntity{
			{Id: sp("c1"), TripUpdate: &gtfsrt.TripUpdate{Trip: td(1), Vehicle: vd(1)}},
			{Id: sp("c2"), TripUpdate: &gtfsrt.TripUpdate{Trip: td(2), Vehicle: vd(1)}},
			{Id: sp("c3"), Vehicle: &gtfsrt.VehiclePosition{Trip: td(1), Vehicle: vd(2)}},
			{Id: sp("c4"), Vehicle: &gtfsrt.VehiclePosition{Trip: td(2), Vehicle: vd(3)}},
			{Id: sp("c5"), Vehicle: &gtfsrt.VehiclePosition{Trip: td(1), Vehicle: vd(3)}},
		}
		conflictingMessageCache = marshalFeed(m)
	}
	return conflictingMessageCache
}

func entityOrder(m *gtfsrt.FeedMessage) string {
	var ids []string
	for _, e := range m.Entity {
		ids = append(ids, e.GetId())
	}
	return strings.Join(ids, ",")
}

func c04Harness(nPairs int, extras bool) Harness { return c04HarnessV(nPairs, extras, 0) }

var c04LaterMessageCache []byte

// c04LaterMessage: vehicles without descriptor naming trips, and vehicles with ids: parsed AFTER the message under
// study and before its result is judged - a result belongs to the caller, whatever is parsed next.
func c04LaterMessage() []byte {
	if c04LaterMessageCache == nil {
		m := newFeed(cp(&tsAlphabet[0]))
		for i := 0; i < 3; i++ {
			m.Entity = append(m.Entity, &gtfsrt.FeedEntity{Id: sp(fmt.Sprintf("later-vp%d", i)), Vehicle: &gtfsrt.VehiclePosition{Trip: &gtfsrt.TripDescriptor{TripId: sp(fmt.Sprintf("LATER-T%d", i))}, StopId: sp(fmt.Sprintf("LATER-S%d", i))}})
			m.Entity = append(m.Entity, &gtfsrt.FeedEntity{Id: sp(fmt.Sprintf("later-tu%d", i)), TripUpdate: &gtfsrt.TripUpdate{Trip: &gtfsrt.TripDescriptor{TripId: sp(fmt.Sprintf("LATER-U%d", i))}, Vehicle: &gtfsrt.VehicleDescriptor{Id: sp(fmt.Sprintf("LATER-V%d", i))}}})
		}
		c04LaterMessageCache = marshalFeed(m)
	}
	return c04LaterMessageCache
}

func c04HarnessV(nPairs int, extras bool, variant int) Harness {
	return func(c *Ctx) {
		am := genAssocV(c, nPairs, extras, false, variant)
		b := marshalFeed(am.msg)
		c.Input(hash64(string(b)), true, func() string { return am.key + "order=" + entityOrder(am.msg) + "\n" + feedText(am.msg) })
		// the parse may be preceded, in the same process, by the parse of a CONFLICTING message
		// about the same ids (a trip claimed by two vehicles): it must not matter
		if c.Free("preceded_by_conflicting_parse", 2) == 1 {
			parseRT(c, conflictingMessage(), &gtfs.ParseRealtimeOptions{})
		}
		c.SetMapMode(mapFree)
		r, err, ok := parseRT(c, b, &gtfs.ParseRealtimeOptions{})
		c.SetMapMode(mapFixed)
		if !ok {
			return
		}
		if err != nil {
			c.Fail("valid-message-rejected", "%v", err)
			return
		}
		c.Steps(len(am.msg.Entity))
		c.Outcome(dumpRealtime(r, rtDumpOpts{links: true, sortVehicles: true}))
		// where the message has a vehicle without identifier, another message is parsed before the result is
		// judged: what the links of this result lead to is still this result
		for _, ap := range am.pairs {
			if ap.vd == nil {
				if _, err, ok := parseRT(c, c04LaterMessage(), &gtfs.ParseRealtimeOptions{}); !ok || err != nil {
					harnessBug("later message: %v", err)
				}
				c.Witness("result_judged_after_a_later_parse")
				break
			}
		}
		claimedTrips := map[int]bool{}
		claimedVehicles := map[int]bool{}
		for i, ap := range am.pairs {
			pn := fmt.Sprintf("pair%d", i+1)
			wantID := refTripID(ap.td, nil)
			ti := -1
			for k := range r.Trips {
				if dumpTripID(r.Trips[k].ID) == dumpTripID(wantID) {
					ti = k
				}
			}
			if ti < 0 {
				c.Fail("trip-missing", "%s: trip %s not in Trips", pn, dumpTripID(wantID))
				continue
			}
			claimedTrips[ti] = true
			t := &r.Trips[ti]
			if !ap.assoc {
				if t.Vehicle != nil {
					c.Fail("link-without-association:trip", "%s: feed associates no vehicle with the trip but Trip.Vehicle is set", pn)
				}
				continue
			}
			// find the vehicle entry
			vi := -1
			wantV := refVehicleID(ap.vd)
			for k := range r.Vehicles {
				v := &r.Vehicles[k]
				if wantV != nil {
					if v.ID != nil && *v.ID == *wantV {
						vi = k
					}
				} else if v.ID == nil && v.StopID != nil && *v.StopID == ap.vpStop {
					vi = k
				}
			}
			sigSuffix := fmt.Sprintf("%s,vehicle-desc=%s", exprNames[ap.expr], vdescNames[ap.vdesc])
			if vi < 0 {
				c.Fail("vehicle-missing:"+sigSuffix, "%s: associated vehicle not in Vehicles", pn)
				continue
			}
			claimedVehicles[vi] = true
			v := &r.Vehicles[vi]
			if t.Vehicle == nil {
				c.Fail("trip.Vehicle-nil:"+sigSuffix, "%s (%s): Trips[%d].Vehicle is nil although the feed associates the trip with a vehicle", pn, sigSuffix, ti)
			}
			if v.Trip == nil {
				c.Fail("vehicle.Trip-nil:"+sigSuffix, "%s (%s): Vehicles[%d].Trip is nil although the feed associates the vehicle with a trip", pn, sigSuffix, vi)
			}
			if t.Vehicle != nil {
				if got, want := dumpVehicleBody(t.Vehicle), dumpVehicleBody(v); got != want {
					c.Fail("trip.Vehicle-content:"+sigSuffix, "%s: Trip.Vehicle differs from the Vehicles entry\n got %s\nwant %s", pn, got, want)
				}
				if t.Vehicle.Trip == nil {
					c.Fail("trip.Vehicle.Trip-nil:"+sigSuffix, "%s: Trip.Vehicle.Trip is nil (links do not lead to each other)", pn)
				} else if got, want := dumpTripBody(t.Vehicle.Trip), dumpTripBody(t); got != want {
					c.Fail("trip.Vehicle.Trip-content:"+sigSuffix, "%s: Trip.Vehicle.Trip is not this trip\n got %s\nwant %s", pn, got, want)
				}
			}
			if v.Trip != nil {
				if got, want := dumpTripBody(v.Trip), dumpTripBody(t); got != want {
					c.Fail("vehicle.Trip-content:"+sigSuffix, "%s: Vehicle.Trip differs from the Trips entry\n got %s\nwant %s", pn, got, want)
				}
				if v.Trip.Vehicle == nil {
					c.Fail("vehicle.Trip.Vehicle-nil:"+sigSuffix, "%s: Vehicle.Trip.Vehicle is nil (links do not lead to each other)", pn)
				} else if got, want := dumpVehicleBody(v.Trip.Vehicle), dumpVehicleBody(v); got != want {
					c.Fail("vehicle.Trip.Vehicle-content:"+sigSuffix, "%s: Vehicle.Trip.Vehicle is not this vehicle\n got %s\nwant %s", pn, got, want)
				}
			}
			if ap.vdesc >= 2 {
				c.Witness("association_with_idless_vehicle")
			}
			if ap.expr == 2 {
				c.Witness("association_expressed_twice")
			}
			if ap.expr == 3 || ap.expr == 4 {
				c.Witness("association_expressed_by_one_of_two_entities")
			}
		}
		for k := range r.Trips {
			if !claimedTrips[k] && r.Trips[k].Vehicle != nil {
				c.Fail("link-without-association:trip", "Trips[%d] %s has a vehicle although the feed associates none", k, dumpTripID(r.Trips[k].ID))
			}
		}
		for k := range r.Vehicles {
			if !claimedVehicles[k] && r.Vehicles[k].Trip != nil {
				c.Fail("link-without-association:vehicle", "Vehicles[%d] %s has a trip although the feed associates none", k, dumpVehicleID(r.Vehicles[k].ID))
			}
		}
	}
}

// c04UnderFilter: under nycttrips with the stale filter on, a stale unassigned trip update is
// dropped; a vehicle position - the only statement that V1 serves T2 - stands next to it in every
// order, with T2's own trip update and a bare vehicle: T2 and V1 must point at each other.
func c04UnderFilter(c *Ctx) {
	opts := nyctOptCombos[c.Free("options", 4)]
	ts := uint64(1700000000)
	no := false
	staleTD := &gtfsrt.TripDescriptor{TripId: sp("060000_L..N"), RouteId: sp("L"), StartDate: sp("20231114")}
	proto.SetExtension(staleTD, gtfsrt.E_NyctTripDescriptor, &gtfsrt.NyctTripDescriptor{TrainId: sp("0L 1000 8AV/RPY"), IsAssigned: &no, Direction: gtfsrt.NyctTripDescriptor_NORTH.Enum()})
	ents := []*gtfsrt.FeedEntity{
		{Id: sp("stale"), TripUpdate: &gtfsrt.TripUpdate{Trip: staleTD, StopTimeUpdate: []*gtfsrt.TripUpdate_StopTimeUpdate{{StopId: sp("L01N"), Departure: &gtfsrt.TripUpdate_StopTimeEvent{Time: cp2(int64(ts) - 600)}}}}},
		{Id: sp("vp"), Vehicle: &gtfsrt.VehiclePosition{Vehicle: &gtfsrt.VehicleDescriptor{Id: sp("V1")}, Trip: &gtfsrt.TripDescriptor{TripId: sp("T2")}, StopId: sp("B1")}},
		{Id: sp("tu2"), TripUpdate: &gtfsrt.TripUpdate{Trip: &gtfsrt.TripDescriptor{TripId: sp("T2")}, StopTimeUpdate: []*gtfsrt.TripUpdate_StopTimeUpdate{{StopId: sp("B2")}}}},
		{Id: sp("bare"), Vehicle: &gtfsrt.VehiclePosition{StopId: sp("B3")}},
	}
	perm := c.Perm("order", len(ents))
	m := newFeed(&ts)
	for _, j := range perm {
		m.Entity = append(m.Entity, ents[j])
	}
	b := marshalFeed(m)
	desc := "order=" + entityOrder(m) + " opts=" + nyctOptName(opts)
	c.Input(hash64(string(b)+nyctOptName(opts)), true, func() string { return desc })
	r, err, ok := parseRT(c, b, &gtfs.ParseRealtimeOptions{Extension: nycttrips.Extension(opts)})
	if !ok {
		return
	}
	if err != nil {
		c.Fail("valid-message-rejected", "%v", err)
		return
	}
	c.Steps(len(ents))
	c.Outcome(dumpRealtime(r, rtDumpOpts{links: true, sortVehicles: true}))
	var t2 *gtfs.Trip
	var v1 *gtfs.Vehicle
	for i := range r.Trips {
		if r.Trips[i].ID.ID == "T2" {
			t2 = &r.Trips[i]
		}
	}
	for i := range r.Vehicles {
		if r.Vehicles[i].ID != nil && r.Vehicles[i].ID.ID == "V1" {
			v1 = &r.Vehicles[i]
		}
	}
	switch {
	case t2 == nil:
		c.Fail("trip-missing", "%s: trip T2 is not in Trips", desc)
	case v1 == nil:
		c.Fail("vehicle-missing:under-filter", "%s: vehicle V1 is not in Vehicles", desc)
	case t2.Vehicle == nil || t2.Vehicle.ID == nil || t2.Vehicle.ID.ID != "V1":
		c.Fail("trip.Vehicle-nil:under-filter", "%s: T2.Vehicle does not lead to V1 although the vehicle position names T2", desc)
	case v1.Trip == nil || v1.Trip.ID.ID != "T2":
		c.Fail("vehicle.Trip-nil:under-filter", "%s: V1.Trip does not lead to T2", desc)
	}
	if opts.FilterStaleUnassignedTrips {
		c.Witness("association_next_to_a_filtered_entity")
	}
}

// c04AssignedTrain: under nycttrips an assigned trip names its train; the trip is reported by a
// trip update and a vehicle position, each of which may already carry a vehicle descriptor of
// its own (id, label, licence plate): the train is one vehicle, and trip and vehicle lead to
// each other whichever entity comes first.
func c04AssignedTrain(c *Ctx) {
	opts := nyctOptCombos[c.Free("options", 4)]
	ts := uint64(1700000000)
	yes := true
	td := func() *gtfsrt.TripDescriptor {
		d := &gtfsrt.TripDescriptor{TripId: sp("012300_1..N03R"), RouteId: sp("1"), StartDate: sp("20231114")}
		proto.SetExtension(d, gtfsrt.E_NyctTripDescriptor, &gtfsrt.NyctTripDescriptor{TrainId: sp("1N 0123+ SFT/242"), IsAssigned: &yes, Direction: gtfsrt.NyctTripDescriptor_NORTH.Enum()})
		return d
	}
	own := func(label string) (*gtfsrt.VehicleDescriptor, string) {
		switch c.Free(label, 5) {
		case 1:
			return &gtfsrt.VehicleDescriptor{Id: sp("car-1")}, "id"
		case 2:
			return &gtfsrt.VehicleDescriptor{Label: sp("car 5501")}, "label"
		case 3:
			return &gtfsrt.VehicleDescriptor{Id: sp("car-1"), Label: sp("car 5501")}, "id+label"
		case 4:
			return &gtfsrt.VehicleDescriptor{LicensePlate: sp("NY 123")}, "plate"
		}
		return nil, "none"
	}
	tuV, tuN := own("trip_update.own_vehicle_descriptor")
	vpV, vpN := own("vehicle_position.own_vehicle_descriptor")
	ents := []*gtfsrt.FeedEntity{
		{Id: sp("tu"), TripUpdate: &gtfsrt.TripUpdate{Trip: td(), Vehicle: tuV, StopTimeUpdate: []*gtfsrt.TripUpdate_StopTimeUpdate{{StopId: sp("101N"), Arrival: &gtfsrt.TripUpdate_StopTimeEvent{Time: cp2(int64(ts) + 60)}}}}},
		{Id: sp("vp"), Vehicle: &gtfsrt.VehiclePosition{Trip: td(), Vehicle: vpV, StopId: sp("101N"), Timestamp: u64p(ts - 5)}},
	}
	if c.Free("an_unrelated_vehicle", 2) == 1 {
		ents = append(ents, &gtfsrt.FeedEntity{Id: sp("other"), Vehicle: &gtfsrt.VehiclePosition{Vehicle: &gtfsrt.VehicleDescriptor{Id: sp("car-1"), Label: sp("car 5501")}, StopId: sp("B3")}})
	}
	perm := c.Perm("order", len(ents))
	m := newFeed(&ts)
	for _, j := range perm {
		m.Entity = append(m.Entity, ents[j])
	}
	b := marshalFeed(m)
	desc := fmt.Sprintf("order=%s opts=%s trip update's own descriptor=%s vehicle position's own descriptor=%s", entityOrder(m), nyctOptName(opts), tuN, vpN)
	c.Input(hash64(string(b)+nyctOptName(opts)), true, func() string { return desc })
	r, err, ok := parseRT(c, b, &gtfs.ParseRealtimeOptions{Extension: nycttrips.Extension(opts)})
	if !ok {
		return
	}
	if err != nil {
		c.Fail("valid-message-rejected", "%v", err)
		return
	}
	c.Steps(len(ents))
	c.Outcome(dumpRealtime(r, rtDumpOpts{links: true, sortVehicles: true}))
	if len(r.Trips) != 1 {
		c.Fail("trip-count:assigned-train", "%s: %d trips, the message has one", desc, len(r.Trips))
		return
	}
	t := &r.Trips[0]
	if t.Vehicle == nil {
		c.Fail("trip.Vehicle-nil:assigned-train", "%s: the trip has no vehicle although it is assigned to a train", desc)
		return
	}
	if t.Vehicle.Trip == nil || dumpTripID(t.Vehicle.Trip.ID) != dumpTripID(t.ID) {
		c.Fail("vehicle.Trip-nil:assigned-train", "%s: Trip.Vehicle.Trip does not lead back to the trip", desc)
	}
	for k := range r.Vehicles {
		v := &r.Vehicles[k]
		if v.Trip == nil {
			continue
		}
		if dumpTripID(v.Trip.ID) != dumpTripID(t.ID) || dumpTripBody(v.Trip) != dumpTripBody(t) {
			c.Fail("stale-copy:assigned-train", "%s: Vehicles[%d].Trip is not the content of Trips[0]", desc, k)
		}
		if v.Trip.Vehicle == nil || dumpVehicleID(v.Trip.Vehicle.ID) != dumpVehicleID(v.ID) || dumpVehicleBody(v.Trip.Vehicle) != dumpVehicleBody(v) {
			c.Fail("links-not-mutual:assigned-train", "%s: Vehicles[%d] %s has the trip, but the trip's vehicle is %s: the references do not lead to each other", desc, k, dumpVehicleID(v.ID), dumpVehicleID(t.Vehicle.ID))
		}
	}
	if tuV != nil || vpV != nil {
		c.Witness("assigned_train_next_to_own_descriptor")
	}
}

func init() {
	register(&Check{
		ID:    "C04",
		Level: "model_checking",
		Rule: "an assigned NYCT trip reported by a trip update and a vehicle position, each with {no, id, label, id+label, licence plate} vehicle descriptor of its own, optionally next to an unrelated vehicle with that descriptor, all orders x 4 option sets; a vehicle position that alone associates V1 with T2, next to a stale trip update the nycttrips filter drops, in all 24 orders x 4 option sets; full product: 2 pairs optionally with an alert naming the trips of both, optionally sharing one trip_id (start dates differ); 1 pair whose trip descriptor carries every schedule relationship, which may be expressed by ONE entity carrying both kinds, whose two vehicle descriptors may disagree on wheelchair_accessible (stated by neither, one, or both differently), whose vehicle position carries 4 sets of optional fields (current_stop_sequence without current_status, ...) and whose entities may be flagged is_deleted (unset, SCHEDULED, ADDED, UNSCHEDULED, CANCELED, REPLACEMENT, DUPLICATED, DELETED); 1 pair (+ optional unrelated trip, unrelated vehicle, alert mentioning the trip, alert naming two new trips), each optionally preceded in the same process by the parse of a conflicting message about the same ids and 2 pairs; association expressed by {TU, VP, both} x vehicle descriptor {id, label only, none, present but empty} x trip descriptor {trip id, route+direction+start}; all n! entity orders (n<=5); all map rotations at every library range; thorough adds 2 pairs with extras; " +
			"non-trivial = every distinct message; oracle = link invariants on the real result",
		Assumptions: []string{"entries are located by identifier, id-less vehicles by the stop id of their position entity"},
		Scenarios: func(tier string) []*Scenario {
			s := []*Scenario{{Name: "one-pair+extras", Bound: -1, Run: c04Harness(1, true)}, {Name: "two-pairs", Bound: -1, Run: c04HarnessV(2, false, 2)},
				{Name: "one-pair-with-schedule-relationships", Bound: -1, Run: c04HarnessV(1, false, 1)},
				{Name: "association-next-to-a-filtered-entity", Bound: -1, Run: c04UnderFilter},
				{Name: "assigned-train-with-own-descriptors", Bound: -1, Run: c04AssignedTrain}}
			if tier == "thorough" {
				s = append(s, &Scenario{Name: "two-pairs+extras", Bound: -1, Run: c04Harness(2, true)}, &Scenario{Name: "three-pairs", Bound: -1, Run: c04Harness(3, false)})
			}
			return s
		},
	})
}
