package main

// C07 - entity order is insignificant; trips/vehicles unique and sorted; own entity wins.
//
// Enumerated: the association messages of C04 (the same trip mentioned by up to three
// entities - its trip update, a vehicle position, an alert selector - and the same vehicle by
// two), ALL n! entity orders (n <= 5), all map rotations; plus messages with conflicting
// duplicates (second trip update for a trip, second position for a vehicle, a trip claimed by
// two vehicles) for the uniqueness / sortedness invariants only.
// Oracles: (1) every order of the same message yields the same dump - Trips in order, Vehicles
// as a multiset, links, alerts in feed order relative to each other (cross-execution
// relation, no expected value); (2) that dump equals the order-independent reference
// interpretation (own entity wins, flags); (3) Trips strictly increasing under an independent
// comparator and under the exported TripID.Less, no two Vehicles with the same non-empty id.

import (
	"fmt"
	"sort"
	"strings"

	"github.com/jamespfennell/gtfs"
	gtfsrt "github.com/jamespfennell/gtfs/proto"
	"google.golang.org/protobuf/proto"
)

func c07Harness(nPairs int, extras, conflicts bool) Harness {
	return c07HarnessV(nPairs, extras, conflicts, 0)
}

func c07HarnessV(nPairs int, extras, conflicts bool, variant int) Harness {
	return func(c *Ctx) {
		am := genAssocV(c, nPairs, extras, conflicts, variant)
		b := marshalFeed(am.msg)
		c.Input(hash64(string(b)), len(am.msg.Entity) >= 2, func() string { return am.key + "order=" + entityOrder(am.msg) + "\n" + feedText(am.msg) })
		if c.Free("preceded_by_conflicting_parse", 2) == 1 {
			parseRT(c, conflictingMessage(), &gtfs.ParseRealtimeOptions{})
		}
		c.SetMapMode(mapFree)
		r, err, ok := parseRT(c, b, &gtfs.ParseRealtimeOptions{})
		c.SetMapMode(mapFixed)
		if !ok {
			return
		}
		if err != nil {
			c.Fail("valid-message-rejected", "%v", err)
			return
		}
		c.Steps(len(am.msg.Entity))
		// invariants for every message
		for i := 1; i < len(r.Trips); i++ {
			a, bb := r.Trips[i-1].ID, r.Trips[i].ID
			if !refTripLess(a, bb) {
				c.Fail("trips-not-strictly-sorted", "Trips[%d]=%s is not below Trips[%d]=%s in the documented identifier order (duplicate or unsorted)", i-1, dumpTripID(a), i, dumpTripID(bb))
			}
			if !a.Less(bb) || bb.Less(a) {
				c.Fail("trips-not-sorted-under-Less", "Trips[%d]=%s / Trips[%d]=%s violate TripID.Less", i-1, dumpTripID(a), i, dumpTripID(bb))
			}
		}
		seen := map[gtfs.VehicleID]int{}
		for i := range r.Vehicles {
			if id := r.Vehicles[i].ID; id != nil {
				if j, dup := seen[*id]; dup {
					c.Fail("duplicate-vehicle-id", "Vehicles[%d] and Vehicles[%d] share the identifier %s", j, i, dumpVehicleID(id))
				}
				seen[*id] = i
			}
		}
		// trips in order, vehicles as a multiset, links; alerts as a multiset here (a permutation
		// legitimately permutes the alerts among themselves; their feed order is checked against
		// the reference below)
		got := dumpRealtime(r, rtDumpOpts{links: true, sortVehicles: true, noAlerts: true})
		var alertDumps []string
		for i := range r.Alerts {
			alertDumps = append(alertDumps, dumpAlert(&r.Alerts[i]))
		}
		sort.Strings(alertDumps)
		got += strings.Join(alertDumps, "\n")
		c.Outcome(got)
		if am.conflicts {
			c.Witness("conflicting_duplicates")
			return
		}
		c.Relate("entity-order-independence", am.key, got)
		want := refParse(am.msg, nil)
		wd := dumpRealtime(want.rt, rtDumpOpts{sortVehicles: true})
		gd := dumpRealtime(r, rtDumpOpts{sortVehicles: true})
		if wd != gd {
			c.Fail("merge:"+firstDiffKind(wd, gd), "result differs from the order-independent reference (own entity wins; flags; alerts in feed order)\n%s", diffLines(wd, gd))
		}
		mentions := 0
		for _, ap := range am.pairs {
			if ap.expr >= 2 {
				mentions++
			}
		}
		if mentions > 0 && am.alertMention {
			c.Witness("trip_mentioned_by_three_entities")
		}
		if mentions > 0 {
			c.Witness("trip_mentioned_twice")
		}
	}
}

// c07UnderExtensions: a conflict-free NYCT message - a stale unassigned trip (trip update +
// vehicle position), an assigned trip (trip update + vehicle position), an elevator alert - in
// ALL 120 entity orders under every bundled extension family: the extension sees the entities
// one by one, and may skip some; the result must not depend on the order it sees them in.
func c07UnderExtensions() Harness {
	cfgs := c06Configs()
	pick := []int{0, 2, 3, 4, 5, 6, 20, 29} // nil, 4 nycttrips, two nyctalerts
	return func(c *Ctx) {
		cfg := cfgs[pick[c.Free("configuration", len(pick))]]
		ts := uint64(1700000000)
		// the train id of the assigned trip, as sent: clean, or padded with blanks (both mentions carry the same text)
		liveTrain := []string{"0L 1010 8AV/RPY", " 0L 1010 8AV/RPY  "}[c.Free("train_id_padded", 2)]
		nyctTD := func(trip, train string, assigned bool) *gtfsrt.TripDescriptor {
			td := &gtfsrt.TripDescriptor{TripId: sp(trip), RouteId: sp("L"), StartDate: sp("20231114")}
			proto.SetExtension(td, gtfsrt.E_NyctTripDescriptor, &gtfsrt.NyctTripDescriptor{TrainId: sp(train), IsAssigned: &assigned, Direction: gtfsrt.NyctTripDescriptor_NORTH.Enum()})
			return td
		}
		stu := func(stop string, t int64) *gtfsrt.TripUpdate_StopTimeUpdate {
			return &gtfsrt.TripUpdate_StopTimeUpdate{StopId: sp(stop), Arrival: &gtfsrt.TripUpdate_StopTimeEvent{Time: cp2(t)}, Departure: &gtfsrt.TripUpdate_StopTimeEvent{Time: cp2(t)}}
		}
		ents := []*gtfsrt.FeedEntity{
			{Id: sp("tuStale"), TripUpdate: &gtfsrt.TripUpdate{Trip: nyctTD("060000_L..N", "0L 1000 8AV/RPY", false), StopTimeUpdate: []*gtfsrt.TripUpdate_StopTimeUpdate{stu("L01N", int64(ts)-600), stu("L02N", int64(ts)-300)}}},
			{Id: sp("vpStale"), Vehicle: &gtfsrt.VehiclePosition{Trip: nyctTD("060000_L..N", "0L 1000 8AV/RPY", false), StopId: sp("L02N"), Timestamp: &ts}},
			{Id: sp("tuLive"), TripUpdate: &gtfsrt.TripUpdate{Trip: nyctTD("061000_L..N", liveTrain, true), StopTimeUpdate: []*gtfsrt.TripUpdate_StopTimeUpdate{stu("L01N", int64(ts)+60)}}},
			{Id: sp("vpLive"), Vehicle: &gtfsrt.VehiclePosition{Trip: nyctTD("061000_L..N", liveTrain, true), StopId: sp("L01N"), Timestamp: &ts}},
			elevEntity(elevAlert{"A27", "N", "1"}, 0),
		}
		perm := c.Perm("order", len(ents))
		m := newFeed(&ts)
		for _, j := range perm {
			m.Entity = append(m.Entity, ents[j])
		}
		b := marshalFeed(m)
		c.Input(hash64(cfg.name+string(b)), true, func() string { return fmt.Sprintf("%s train id %q order=%s", cfg.name, liveTrain, entityOrder(m)) })
		c.SetMapMode(mapFree)
		r, err, ok := parseRT(c, b, cfg.mk())
		c.SetMapMode(mapFixed)
		if !ok {
			return
		}
		if err != nil {
			c.Fail("valid-message-rejected", "%v", err)
			return
		}
		c.Steps(len(ents))
		got := dumpRealtime(r, rtDumpOpts{links: true, sortVehicles: true})
		c.Outcome(got)
		c.Relate("entity-order-independence-under-"+cfg.family, cfg.name+"|"+liveTrain, got)
		if strings.Contains(cfg.name, "filterStale=true") {
			c.Witness("extension_skips_an_entity")
		}
	}
}

// c07ManyEntities: messages of 13..100 entities in which trip updates, alerts and vehicle
// positions alternate: alerts keep their relative feed order, trips and vehicles are those of the
// order-independent reference, in the given order, reversed and rotated.
func c07ManyEntities(c *Ctx) {
	n := []int{12, 13, 14, 25, 40, 100}[c.Free("entities", 6)]
	order := c.Free("order", 3)
	var ents []*gtfsrt.FeedEntity
	for i := 0; i < n; i++ {
		switch i % 3 {
		case 0:
			ents = append(ents, &gtfsrt.FeedEntity{Id: sp(fmt.Sprintf("tu%03d", i)), TripUpdate: &gtfsrt.TripUpdate{Trip: &gtfsrt.TripDescriptor{TripId: sp(fmt.Sprintf("T%03d", (i*7)%n))},
				Vehicle: &gtfsrt.VehicleDescriptor{Id: sp(fmt.Sprintf("V%03d", (i*7)%n))}, StopTimeUpdate: []*gtfsrt.TripUpdate_StopTimeUpdate{{StopId: sp(fmt.Sprintf("S%d", i))}}}})
		case 1:
			ents = append(ents, &gtfsrt.FeedEntity{Id: sp(fmt.Sprintf("alert-%03d", i)), Alert: &gtfsrt.Alert{InformedEntity: []*gtfsrt.EntitySelector{{StopId: sp(fmt.Sprintf("AS%d", i))}},
				HeaderText: &gtfsrt.TranslatedString{Translation: []*gtfsrt.TranslatedString_Translation{{Text: sp(fmt.Sprintf("alert %d", i))}}}}})
		case 2:
			ents = append(ents, &gtfsrt.FeedEntity{Id: sp(fmt.Sprintf("vp%03d", i)), Vehicle: &gtfsrt.VehiclePosition{Vehicle: &gtfsrt.VehicleDescriptor{Id: sp(fmt.Sprintf("W%03d", i))}, StopId: sp(fmt.Sprintf("VS%d", i))}})
		}
	}
	switch order {
	case 1:
		for i, j := 0, len(ents)-1; i < j; i, j = i+1, j-1 {
			ents[i], ents[j] = ents[j], ents[i]
		}
	case 2:
		ents = append(ents[n/2:], ents[:n/2]...)
	}
	m := newFeed(cp(&tsAlphabet[0]))
	m.Entity = ents
	b := marshalFeed(m)
	c.Input(hash64(string(b)), true, func() string {
		return fmt.Sprintf("%d entities (trip update, alert, vehicle position alternating), order %d", n, order)
	})
	r, err, ok := parseRT(c, b, &gtfs.ParseRealtimeOptions{})
	if !ok {
		return
	}
	if err != nil {
		c.Fail("valid-message-rejected", "%v", err)
		return
	}
	c.Steps(n)
	want := refParse(m, nil)
	wd := dumpRealtime(want.rt, rtDumpOpts{sortVehicles: true})
	gd := dumpRealtime(r, rtDumpOpts{sortVehicles: true})
	c.Outcome(gd)
	if wd != gd {
		c.Fail("merge:"+firstDiffKind(wd, gd), "result differs from the order-independent reference (alerts in feed order)\n%s", diffLines(wd, gd))
	}
	c.Witness("message_of_many_entities")
}

// c07IdentifierOrder: trips whose identifiers differ in exactly one component of the key
// (or are equal up to a later component), in every order of the entities: Trips must come out
// strictly increasing in the documented order, and identical for every permutation.
func c07IdentifierOrder(c *Ctx) {
	u0, u1 := uint32(0), uint32(1)
	added := gtfsrt.TripDescriptor_ADDED
	pool := []*gtfsrt.TripDescriptor{
		{TripId: sp("T"), RouteId: sp("R")},
		{TripId: sp("T"), RouteId: sp("R"), DirectionId: &u0},
		{TripId: sp("T"), RouteId: sp("R"), DirectionId: &u1},
		{TripId: sp("T"), RouteId: sp("R"), StartTime: sp("10:00:00")},
		{TripId: sp("T"), RouteId: sp("R"), StartTime: sp("09:00:00")},
		{TripId: sp("T"), RouteId: sp("R"), StartTime: sp("00:00:00")},
		{TripId: sp("T"), RouteId: sp("R"), StartTime: sp("24:00:00")}, // a start time past midnight is another trip than 00:00:00
		{TripId: sp("T"), RouteId: sp("R"), StartTime: sp("33:00:00")}, // ... and than 09:00:00
		{TripId: sp("T"), RouteId: sp("R"), StartDate: sp("20240102")},
		{TripId: sp("T"), RouteId: sp("R"), StartDate: sp("20240101")},
		{TripId: sp("T"), RouteId: sp("R"), StartDate: sp("20241231")}, // the last day of a year sorts before ...
		{TripId: sp("T"), RouteId: sp("R"), StartDate: sp("20250101")}, // ... the first day of the next
		{TripId: sp("T"), RouteId: sp("R"), StartTime: sp("10:00:00"), StartDate: sp("20240101")},
		{TripId: sp("T"), RouteId: sp("R"), ScheduleRelationship: &added},
		{TripId: sp("T"), RouteId: sp("Q")},
		{TripId: sp("S"), RouteId: sp("Z")},
		{TripId: sp("T")},
	}
	// choose 4 distinct pool entries (ascending indices), then every order of them
	var idx []int
	last := -1
	for k := 0; k < 4; k++ {
		remaining := len(pool) - (last + 1) - (3 - k)
		j := last + 1 + c.Free(fmt.Sprintf("pick[%d]", k), remaining)
		idx = append(idx, j)
		last = j
	}
	perm := c.Perm("order", 4)
	m := newFeed(cp(&tsAlphabet[0]))
	for _, pi := range perm {
		j := idx[pi]
		m.Entity = append(m.Entity, &gtfsrt.FeedEntity{Id: sp(fmt.Sprintf("e%d", j)), TripUpdate: &gtfsrt.TripUpdate{Trip: cloneTD(pool[j]),
			StopTimeUpdate: []*gtfsrt.TripUpdate_StopTimeUpdate{{StopId: sp(fmt.Sprintf("S%d", j))}}}})
	}
	b := marshalFeed(m)
	key := fmt.Sprint(idx)
	c.Input(hash64(string(b)), true, func() string { return "pool entries " + key + " order=" + entityOrder(m) + "\n" + feedText(m) })
	c.SetMapMode(mapFree)
	r, err, ok := parseRT(c, b, &gtfs.ParseRealtimeOptions{Timezone: zoneNY})
	c.SetMapMode(mapFixed)
	if !ok {
		return
	}
	if err != nil {
		c.Fail("valid-message-rejected", "%v", err)
		return
	}
	c.Steps(4)
	if len(r.Trips) != 4 {
		c.Fail("trips-lost-or-duplicated", "4 distinct trip descriptors, %d trips", len(r.Trips))
	}
	for i := 1; i < len(r.Trips); i++ {
		a, bb := r.Trips[i-1].ID, r.Trips[i].ID
		if !refTripLess(a, bb) {
			c.Fail("trips-not-strictly-sorted", "Trips[%d]=%s is not below Trips[%d]=%s in the documented identifier order", i-1, dumpTripID(a), i, dumpTripID(bb))
		}
		if !a.Less(bb) || bb.Less(a) {
			c.Fail("trips-not-sorted-under-Less", "Trips[%d]=%s / Trips[%d]=%s violate TripID.Less", i-1, dumpTripID(a), i, dumpTripID(bb))
		}
	}
	got := dumpRealtime(r, rtDumpOpts{links: true})
	c.Outcome(got)
	c.Relate("identifier-order-independence", key, got)
	c.Witness("identifiers_equal_up_to_one_component")
}

func init() {
	register(&Check{
		ID:    "C07",
		Level: "model_checking",
		Rule: "messages of 12..100 alternating trip updates / alerts / vehicle positions in 3 orders (alerts keep their feed order); 1 pair whose vehicle position carries 4 sets of optional fields and whose entities may be flagged is_deleted; an NYCT message (stale unassigned trip as trip update + vehicle position, assigned trip as trip update + vehicle position, elevator alert) in all 120 entity orders under 8 configurations (nil, 4 nycttrips, 3 nyctalerts): one dump per configuration; association messages (1 pair + extras, 2 pairs; thorough: 2 pairs + extras) in ALL n! entity orders (n<=5; 4 orders beyond) x all map rotations, plus the same with conflicting duplicates (invariants only); plus every 4-subset of 13 trip descriptors that differ in one identifier component each (direction, start time, start date, schedule relationship, route, id) in all 24 orders; " +
			"non-trivial = distinct messages with >= 2 entities; oracles = cross-execution relation (message up to order -> dump), order-independent reference, sortedness/uniqueness invariants",
		Assumptions: []string{"the identifier order is the documented field order (id, route, direction, start time, start date, schedule relationship)"},
		Scenarios: func(tier string) []*Scenario {
			s := []*Scenario{
				{Name: "one-pair+extras", Bound: -1, Run: c07Harness(1, true, false)},
				{Name: "two-pairs", Bound: -1, Run: c07Harness(2, false, false)},
				{Name: "one-pair+conflicts", Bound: -1, Run: c07Harness(1, false, true)},
				{Name: "one-pair-with-optional-fields-and-deleted-entities", Bound: -1, Run: c07HarnessV(1, false, false, 3)},
				{Name: "identifier-order", Bound: -1, Run: c07IdentifierOrder},
				{Name: "orders-under-extensions", Bound: -1, Run: c07UnderExtensions()},
				{Name: "many-entities", Bound: -1, Run: c07ManyEntities},
			}
			if tier == "thorough" {
				s = append(s, &Scenario{Name: "two-pairs+extras", Bound: -1, Run: c07Harness(2, true, false)},
					&Scenario{Name: "two-pairs+conflicts", Bound: -1, Run: c07Harness(2, false, true)},
					&Scenario{Name: "three-pairs", Bound: -1, Run: c07Harness(3, false, false)})
			}
			return s
		},
	})
}

var _ = fmt.Sprintf
