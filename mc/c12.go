package main

// C12 - alert informed entities are normalised without losing or inventing scope.
//
// Enumerated: selectors = presence/value product of agency {-,A}, route {-,R1,R2}, route
// type {-,3,99}, direction {-,0,1}, stop {-,S}, trip descriptor {- | trip_id {-,T} x route
// {-,R1,R2} x direction {-,0,1} x start_time {-,ok} x start_date {-,ok} x schedule_relationship {-,CANCELED,SCHEDULED}} = 23 436 selectors.
// Alerts: every single selector; all ordered pairs over a 120-selector sub-alphabet that
// contains every interaction class, in one alert and split over two alerts; the 120 selectors under America/Santiago, Havana and Asuncion with start dates on the day those zones spring forward at midnight; alerts of 9..257 selectors (3 strides x 4 offsets over the 120; one alert or three); thorough: all
// triples over 24 selectors and all pairs (one from the 120, one from all 7 884).
// Oracle: a reference normaliser written from the statement (refAlert), compared entity by
// entity for the per-selector part and as a set for the fall-back routes; output invariants
// (every entity informs something, trip identifiers only when identifying, every such trip in
// Trips).

import (
	"fmt"
	"regexp"
	"sort"
	"strings"
	"time"

	"github.com/jamespfennell/gtfs"
	gtfsrt "github.com/jamespfennell/gtfs/proto"
)

type selSpec struct {
	agency, route, rtype, dir, stop    int
	hasTD                              bool
	tdTrip, tdRoute, tdDir, tdST, tdSD int
	tdSR                               int // 0 absent, 1 CANCELED, 2 SCHEDULED
}

func (s selSpec) build() *gtfsrt.EntitySelector {
	e := &gtfsrt.EntitySelector{}
	if s.agency == 1 {
		e.AgencyId = sp("A")
	}
	if s.route > 0 {
		e.RouteId = sp(fmt.Sprintf("R%d", s.route))
	}
	if s.rtype > 0 {
		v := c12RouteTypes[s.rtype-1]
		e.RouteType = &v
	}
	if s.dir > 0 {
		v := uint32(s.dir - 1)
		e.DirectionId = &v
	}
	if s.stop == 1 {
		e.StopId = sp("S")
	}
	if s.hasTD {
		d := &gtfsrt.TripDescriptor{}
		if s.tdTrip == 1 {
			d.TripId = sp("T")
		}
		if s.tdRoute > 0 {
			d.RouteId = sp(fmt.Sprintf("R%d", s.tdRoute))
		}
		if s.tdDir > 0 {
			v := uint32(s.tdDir - 1)
			d.DirectionId = &v
		}
		if s.tdST == 1 {
			d.StartTime = sp("10:00:00")
		}
		if s.tdST == 2 {
			d.StartTime = sp("25:30:00") // past midnight: a start time like any other
		}
		if s.tdSD == 1 {
			d.StartDate = sp("20240102")
		}
		if s.tdSR > 0 {
			v := []gtfsrt.TripDescriptor_ScheduleRelationship{gtfsrt.TripDescriptor_CANCELED, gtfsrt.TripDescriptor_SCHEDULED}[s.tdSR-1]
			d.ScheduleRelationship = &v
		}
		e.Trip = d
	}
	return e
}

func (s selSpec) String() string {
	td := "-"
	if s.hasTD {
		td = fmt.Sprintf("{trip=%d route=%d dir=%d st=%d sd=%d sr=%d}", s.tdTrip, s.tdRoute, s.tdDir, s.tdST, s.tdSD, s.tdSR)
	}
	return fmt.Sprintf("sel{agency=%d route=%d type=%d dir=%d stop=%d td=%s}", s.agency, s.route, s.rtype, s.dir, s.stop, td)
}

func genFullSelector(c *Ctx, p string) selSpec {
	s := selSpec{agency: c.Free(p+"agency", 2), route: c.Free(p+"route", 3), rtype: c.Free(p+"route_type", 3), dir: c.Free(p+"direction", 3), stop: c.Free(p+"stop", 2)}
	if c.Free(p+"trip", 2) == 1 {
		s.hasTD = true
		s.tdTrip, s.tdRoute, s.tdDir, s.tdST, s.tdSD = c.Free(p+"trip.trip_id", 2), c.Free(p+"trip.route", 3), c.Free(p+"trip.direction", 3), c.Free(p+"trip.start_time", 3), c.Free(p+"trip.start_date", 2)
		s.tdSR = c.Free(p+"trip.schedule_relationship", 3)
	}
	return s
}

// route types: two values for the products, then every other GTFS value and more unknown ones
var c12RouteTypes = []int32{3, 99, 0, 1, 2, 4, 5, 6, 7, 11, 12, 8, 10, -1, 10000}

var c12Sub120, c12Sub24 []selSpec

func init() {
	plains := []selSpec{{}, {route: 1}, {route: 2}, {stop: 1}, {agency: 1}}
	tds := []selSpec{
		{},
		{hasTD: true, tdTrip: 1},
		{hasTD: true, tdRoute: 1},
		{hasTD: true, tdRoute: 2},
		{hasTD: true, tdRoute: 1, tdDir: 1},
		{hasTD: true, tdRoute: 1, tdDir: 2},
		{hasTD: true, tdRoute: 2, tdDir: 1},
		{hasTD: true, tdTrip: 1, tdRoute: 1},
		{hasTD: true, tdRoute: 1, tdDir: 1, tdST: 1, tdSD: 1},
		{hasTD: true, tdRoute: 1, tdST: 1},
		{hasTD: true, tdDir: 1},
		{hasTD: true},
	}
	for _, p := range plains {
		for _, t := range tds {
			for d := 0; d < 2; d++ {
				s := t
				s.agency, s.route, s.stop, s.dir = p.agency, p.route, p.stop, d
				c12Sub120 = append(c12Sub120, s)
			}
		}
	}
	for _, p := range []selSpec{{}, {route: 1}} {
		for _, t := range []selSpec{{}, {hasTD: true, tdRoute: 1}, {hasTD: true, tdRoute: 1, tdDir: 1}, {hasTD: true, tdRoute: 1, tdDir: 2}, {hasTD: true, tdRoute: 2}, {hasTD: true, tdTrip: 1}} {
			for d := 0; d < 2; d++ {
				s := t
				s.route, s.dir = p.route, d
				c12Sub24 = append(c12Sub24, s)
			}
		}
	}
}

// c12Zone / c12Date: set by the scenario that parses under a Timezone option with start dates on the
// day that zone springs forward AT midnight (local midnight does not exist on that day).
var c12Zone *time.Location
var c12Date string

var sdRe = regexp.MustCompile(`sd=(\d+)@[^ }]*`)

// c12NormSD: where local midnight does not exist the statement does not say which instant stands
// for the day (the instant before the gap or the first instant of the day): under c12Zone start
// dates are compared as calendar dates (of the instant two hours later).
func c12NormSD(s string) string {
	if c12Zone == nil || true { // the library now agrees with the reference (first instant of the day): compared exactly
		return s
	}
	return sdRe.ReplaceAllStringFunc(s, func(m string) string {
		var n int64
		fmt.Sscanf(m, "sd=%d@", &n)
		return "sd=day " + time.Unix(n+7200, 0).In(c12Zone).Format("20060102")
	})
}

func c12Check(c *Ctx, alerts [][]selSpec) {
	m := newFeed(cp(&tsAlphabet[0]))
	var desc []string
	for i, sels := range alerts {
		a := &gtfsrt.Alert{}
		for _, s := range sels {
			e := s.build()
			if c12Date != "" && e.Trip != nil && e.Trip.StartDate != nil {
				e.Trip.StartDate = sp(c12Date)
			}
			a.InformedEntity = append(a.InformedEntity, e)
			desc = append(desc, fmt.Sprintf("alert%d: %s", i, s))
		}
		m.Entity = append(m.Entity, &gtfsrt.FeedEntity{Id: sp(fmt.Sprintf("alert%d", i)), Alert: a})
	}
	b := marshalFeed(m)
	nontrivial := false
	for _, sels := range alerts {
		for _, s := range sels {
			if s.hasTD {
				nontrivial = true
			}
		}
	}
	c.Input(hash64(string(b)), nontrivial, func() string { return strings.Join(desc, "\n") + "\n" + feedText(m) })
	c.SetMapMode(mapFree)
	r, err, ok := parseRT(c, b, &gtfs.ParseRealtimeOptions{Timezone: c12Zone})
	c.SetMapMode(mapFixed)
	if !ok {
		return
	}
	if err != nil {
		c.Fail("valid-message-rejected", "%v", err)
		return
	}
	c.Steps(len(desc))
	if len(r.Alerts) != len(alerts) {
		c.Fail("alert-count", "%d alerts for %d alert entities", len(r.Alerts), len(alerts))
		return
	}
	tripSet := map[string]bool{}
	for i := range r.Trips {
		tripSet[dumpTripID(r.Trips[i].ID)] = true
	}
	var outcome strings.Builder
	for i := range alerts {
		want, fallback, lenient, _ := refAlert(fmt.Sprintf("alert%d", i), m.Entity[i].Alert, c12Zone)
		got := r.Alerts[i].InformedEntities
		for j, e := range got {
			outcome.WriteString(dumpInformed(e) + "\n")
			// output invariants
			if e.AgencyID == nil && e.RouteID == nil && e.RouteType == gtfs.RouteType_Unknown && e.StopID == nil && !identifiable(e.TripID) {
				c.Fail("entity-informs-nothing", "alert %d entity %d informs nothing: %s", i, j, dumpInformed(e))
			}
			if e.TripID != nil && !identifiable(e.TripID) {
				c.Fail("trip-id-does-not-identify", "alert %d entity %d carries a trip identifier that does not determine a trip: %s", i, j, dumpInformed(e))
			}
			if e.TripID != nil && !tripSet[dumpTripID(*e.TripID)] {
				c.Fail("informed-trip-not-in-Trips", "alert %d entity %d names trip %s which is not in Trips", i, j, dumpTripID(*e.TripID))
			}
		}
		n := len(want.InformedEntities)
		if len(got) < n {
			c.Fail("selector-lost", "alert %d: %d entities, the selectors require %d\nwant:\n%s\ngot:\n%s", i, len(got), n, dumpInformedList(want.InformedEntities), dumpInformedList(got))
			continue
		}
		for j := 0; j < n; j++ {
			if w, g := c12NormSD(dumpInformed(want.InformedEntities[j])), c12NormSD(dumpInformed(got[j])); w != g {
				c.Fail("selector-misrepresented", "alert %d entity %d\nwant %s\ngot  %s", i, j, w, g)
			}
		}
		var wantFB, gotFB []string
		for _, e := range fallback {
			if !lenient[*e.RouteID] {
				wantFB = append(wantFB, c12NormSD(dumpInformed(e)))
			}
		}
		for _, e := range got[n:] {
			if e.RouteID != nil && lenient[*e.RouteID] && e.AgencyID == nil && e.StopID == nil && e.TripID == nil && e.RouteType == gtfs.RouteType_Unknown {
				continue
			}
			gotFB = append(gotFB, c12NormSD(dumpInformed(e)))
		}
		sort.Strings(wantFB)
		sort.Strings(gotFB)
		if strings.Join(wantFB, "\n") != strings.Join(gotFB, "\n") {
			c.Fail("route-fallback", "alert %d: route fall-back entities differ\nwant %q\ngot  %q\nselectors:\n%s", i, wantFB, gotFB, strings.Join(desc, "\n"))
		}
		if len(wantFB) > 0 {
			c.Witness("route_fallback_expected")
		}
		if len(wantFB) > 1 {
			c.Witness("two_fallback_routes")
		}
	}
	c.Outcome(outcome.String())
}

func dumpInformedList(l []gtfs.AlertInformedEntity) string {
	var sb strings.Builder
	for i, e := range l {
		fmt.Fprintf(&sb, "  [%d] %s\n", i, dumpInformed(e))
	}
	return sb.String()
}

func init() {
	register(&Check{
		ID:    "C12",
		Level: "model_checking",
		Rule: "full products: all single selectors (incl. a schedule relationship on the descriptor and a start time past midnight); every GTFS route type 0-7, 11, 12 and five unknown values x plain fields; all 14 400 ordered pairs over a 120-selector sub-alphabet (plain {none,R1,R2,stop,agency} x 12 descriptor classes x own direction) in one alert and split over two alerts; thorough adds all 1 728 000 triples over the 120, all 13 824 triples over 24 selectors (kept as a fast subset) and all pairs (120 x 7 884); all map rotations of the fall-back loop; " +
			"non-trivial = distinct messages with at least one trip descriptor in a selector; oracle = reference normaliser + output invariants",
		Assumptions: []string{"for descriptors with a route and only part of a start (or a schedule relationship) the route fall-back is neither required nor forbidden", "a route type outside the GTFS list informs nothing"},
		Scenarios: func(tier string) []*Scenario {
			s := []*Scenario{
				{Name: "single-selector", Bound: -1, Run: func(c *Ctx) { c12Check(c, [][]selSpec{{genFullSelector(c, "s.")}}) }},
				{Name: "all-route-types", Bound: -1, Run: func(c *Ctx) {
					s := selSpec{rtype: 1 + c.Free("route_type", len(c12RouteTypes)), agency: c.Free("agency", 2), route: c.Free("route", 2), stop: c.Free("stop", 2), dir: c.Free("direction", 2)}
					if c.Free("trip", 3) > 0 {
						s.hasTD = true
						s.tdRoute = 1
					}
					// next to a plain selector, so that a dropped entity shifts its successors
					c12Check(c, [][]selSpec{{s, {stop: 1}}})
				}},
				{Name: "pairs-over-120", Bound: -1, Run: func(c *Ctx) {
					a, b := c12Sub120[c.Free("first", 120)], c12Sub120[c.Free("second", 120)]
					if c.Free("split_into_two_alerts", 2) == 1 {
						c12Check(c, [][]selSpec{{a}, {b}})
					} else {
						c12Check(c, [][]selSpec{{a, b}})
					}
				}},
			}
			s = append(s, &Scenario{Name: "start-dates-on-a-day-without-midnight", Bound: -1, Run: func(c *Ctx) {
				// zones that spring forward at local midnight: the start date is a date all the same
				z := c.Free("zone", 3)
				c12Zone = []*time.Location{mustLoc("America/Santiago"), mustLoc("America/Havana"), mustLoc("America/Asuncion")}[z]
				c12Date = []string{"20240908", "20240310", "20241006"}[z]
				defer func() { c12Zone, c12Date = nil, "" }()
				a, b := c12Sub120[c.Free("first", 120)], selSpec{stop: 1}
				if c.Free("second_is_the_same_selector", 2) == 1 {
					b = a
				}
				c.Witness("start_date_without_a_local_midnight")
				c12Check(c, [][]selSpec{{a, b}})
			}})
			s = append(s, &Scenario{Name: "many-selectors", Bound: -1, Run: func(c *Ctx) {
				// alerts of 9..257 selectors drawn from the 120 with three strides and four offsets, in
				// one alert or dealt round-robin to three
				n := []int{9, 17, 33, 65, 130, 257}[c.Free("selectors", 6)]
				off := []int{0, 7, 40, 93}[c.Free("offset", 4)]
				stride := []int{1, 7, 11}[c.Free("stride", 3)]
				k := []int{1, 3}[c.Free("alerts", 2)]
				alerts := make([][]selSpec, k)
				for i := 0; i < n; i++ {
					alerts[i%k] = append(alerts[i%k], c12Sub120[(off+i*stride)%120])
				}
				c.Witness("alert_with_many_selectors")
				c12Check(c, alerts)
			}})
			if tier == "thorough" {
				s = append(s, &Scenario{Name: "triples-over-120", Bound: -1, Run: func(c *Ctx) {
					c12Check(c, [][]selSpec{{c12Sub120[c.Free("first", 120)], c12Sub120[c.Free("second", 120)], c12Sub120[c.Free("third", 120)]}})
				}}, &Scenario{Name: "triples-over-24", Bound: -1, Run: func(c *Ctx) {
					c12Check(c, [][]selSpec{{c12Sub24[c.Free("first", 24)], c12Sub24[c.Free("second", 24)], c12Sub24[c.Free("third", 24)]}})
				}}, &Scenario{Name: "pairs-120-x-all", Bound: -1, Run: func(c *Ctx) {
					a := c12Sub120[c.Free("first", 120)]
					b := genFullSelector(c, "s.")
					if c.Free("swap", 2) == 1 {
						a, b = b, a
					}
					c12Check(c, [][]selSpec{{a, b}})
				}})
			}
			return s
		},
	})
}
