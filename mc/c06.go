package main

// C06 - parsing is a pure function of bytes and options: deterministic and history-free.
//
// (1) map orders: inputs whose library maps hold 2-4 entries (3 services incl. an
//     exception-only one, 3 shapes, 3 trips; 3 id-bearing vehicles and 3 trips; an alert with 3
//     fall-back routes; stops with parents) - EVERY combination of rotations at EVERY library
//     `range` over a map (the runtime's random start is a choice point) must give a dump
//     identical, order included, to the parse with all starts at 0.
// (2) histories: one shared options / extension object, an alphabet of 9 feeds (two with
//     elevator alerts sharing groups, two NYCT trip feeds, a mixed one, an empty one), EVERY
//     sequence of <= 3 calls (thorough <= 4) for every bundled configuration (caller's options
//     with nil Extension, 4 nycttrips, 24 nyctalerts): the last call's result must equal the
//     result of the same call on a fresh object; the caller's options value must be unchanged;
//     the input bytes must be unchanged. Static: every sequence of <= 3 parses over 3 archives.
// (3) every parse of the same (bytes, configuration) anywhere in the run - any history, any
//     worker process - is related to one dump (cross-execution relation).

import (
	"encoding/base64"
	"fmt"
	"os"
	"os/exec"
	"sort"
	"strings"
	"time"

	"github.com/jamespfennell/gtfs"
	"github.com/jamespfennell/gtfs/extensions"
	"github.com/jamespfennell/gtfs/extensions/nyctalerts"
	"github.com/jamespfennell/gtfs/extensions/nycttrips"
	gtfsrt "github.com/jamespfennell/gtfs/proto"
	"google.golang.org/protobuf/proto"
)

// classifyDiff names how two ordered dumps differ: "order-only:<Kind>" when they have the
// same lines, otherwise "content:<Kind>".
func classifyDiff(want, got string) string {
	kind := firstDiffKind(want, got)
	if sortedLines(want) == sortedLines(got) {
		return "order-only:" + kind
	}
	return "content:" + kind
}

func c06StaticFeed(c *Ctx) *feedModel {
	n := baseCounts
	n.calendars, n.calendarDates, n.shapes, n.trips, n.stops, n.stopTimes = 2, 3, 3, 3, 4, 6
	m := genStaticFeedN(c, false, n, nil, nil)
	// service ids that are equal as numbers and differ as text ("7", "07", "+7"): a numeric comparison ties
	ren := map[string]string{}
	for i, t := range []string{"calendar.txt", "calendar_dates.txt"} {
		tt := m.t(t)
		for r := range tt.Rows {
			id, _ := tt.get(r, "service_id")
			if _, ok := ren[id]; !ok {
				ren[id] = []string{"7", "07", "+7", "007", "7.0"}[(len(ren)+i*0)%5]
			}
		}
	}
	for _, t := range []string{"calendar.txt", "calendar_dates.txt", "trips.txt"} {
		tt := m.t(t)
		for r := range tt.Rows {
			if id, _ := tt.get(r, "service_id"); ren[id] != "" {
				tt.set(r, "service_id", ren[id])
			}
		}
	}
	// three children of the same station
	st := m.t("stops.txt")
	p, _ := st.get(0, "stop_id")
	for r := 1; r < len(st.Rows); r++ {
		st.set(r, "parent_station", p)
	}
	return m
}

func u32p(v uint32) *uint32 { return &v }

// c06MapOrderStatic: with cycles, the stops form a 3-cycle, a 2-cycle and a self-parent (which
// link the parser cuts is its business - but it must be the same one every time).
func c06MapOrderStatic(cycles bool) Harness {
	return func(c *Ctx) { c06MapOrderStaticRun(c, cycles) }
}

func c06MapOrderStaticRun(c *Ctx, cycles bool) {
	m := c06StaticFeed(c)
	header := 0
	if !cycles {
		header = c.Free("headers", 4) // as generated; agency.txt lacks required columns; padded header cells; tables only in sub-folders
	}
	if header == 3 {
		// transfers.txt and calendar_dates.txt are not in the archive; two sub-folders each hold a (different) file of
		// either name: whatever the parser makes of those, it makes the same of them every time
		var members []rawMember
		for _, t := range m.Tables {
			content := renderCSV(t, presentation{})
			if t.File == "transfers.txt" || t.File == "calendar_dates.txt" {
				members = append(members, rawMember{"gtfs/" + t.File, content})
				older := t.clone()
				if len(older.Rows) > 1 {
					older.Rows = older.Rows[1:]
				}
				members = append(members, rawMember{"gtfs_previous/" + t.File, renderCSV(older, presentation{})}, rawMember{"old/2023/" + t.File, renderCSV(older, presentation{})})
				continue
			}
			members = append(members, rawMember{t.File, content})
		}
		b := buildZip(members, false)
		c.Input(hash64(string(b)), true, func() string {
			return "transfers.txt and calendar_dates.txt only inside gtfs/, gtfs_previous/ and old/2023/"
		})
		describe := func() string {
			r, err, _ := parseStaticGuarded(c, b, gtfs.ParseStaticOptions{})
			if err != nil {
				return "error: " + err.Error()
			}
			return dumpStatic(r, staticDumpOpts{})
		}
		ref := describe()
		c.SetMapMode(mapFree)
		got := describe()
		c.SetMapMode(mapFixed)
		c.Steps(2)
		c.Outcome(got)
		c.Relate("static-pure-function", string(b), got)
		if ref != got {
			c.Fail("static/"+classifyDiff(ref, got), "the same archive (optional tables only inside sub-folders) gives another result under another map iteration order\n%s", diffLines(ref, got))
		}
		c.Witness("tables_only_in_sub_folders")
		return
	}
	if header == 2 {
		// no column is called stop_name / trip_headsign, two are called so up to blanks (with different values):
		// whatever the parser makes of them, it makes the same of them every time
		for _, fc := range [][2]string{{"stops.txt", "stop_name"}, {"trips.txt", "trip_headsign"}, {"routes.txt", "route_long_name"}} {
			t := m.t(fc[0])
			k := t.col(fc[1])
			if k < 0 {
				harnessBug("no column %s in %s", fc[1], fc[0])
			}
			t.Cols[k] = " " + fc[1]
			t.Cols = append(t.Cols, fc[1]+" ")
			for r := range t.Rows {
				t.Rows[r] = append(t.Rows[r], fmt.Sprintf("OTHER-%s-%d", fc[1], r))
			}
		}
		c.Witness("padded_header_cells")
	}
	if header == 1 {
		// the parse reports the missing columns (in a warning or in its error): in one order, every time
		a := m.t("agency.txt")
		a.dropCol("agency_name")
		a.dropCol("agency_url")
		a.dropCol("agency_timezone")
		b := renderFeed(m, presentation{})
		c.Input(hash64(string(b)), true, func() string { return "agency.txt without agency_name, agency_url, agency_timezone" })
		describe := func() string {
			r, err, _ := parseStaticGuarded(c, b, gtfs.ParseStaticOptions{})
			if err != nil {
				return "error: " + err.Error()
			}
			return dumpStatic(r, staticDumpOpts{})
		}
		ref := describe()
		c.SetMapMode(mapFree)
		got := describe()
		c.SetMapMode(mapFixed)
		c.Steps(2)
		c.Outcome(got)
		c.Relate("static-pure-function", string(b), got)
		if ref != got {
			c.Fail("static/"+classifyDiff(ref, got), "the same archive (agency.txt lacking three required columns) gives another result under another map iteration order\n%s", diffLines(ref, got))
		}
		c.Witness("missing_required_columns_reported")
		return
	}
	if cycles {
		st := m.t("stops.txt")
		p := protoRow(st)
		for len(st.Rows) < 7 {
			st.Rows = append(st.Rows, append([]string{}, p...))
		}
		ids := []string{"ca", "cb", "cc", "da", "db", "self", "leaf"}
		parents := []string{"cb", "cc", "ca", "db", "da", "self", "ca"}
		for r := range st.Rows {
			st.set(r, "stop_id", ids[r])
			st.set(r, "parent_station", parents[r])
			st.set(r, "location_type", "")
		}
		stt := m.t("stop_times.txt")
		for r := range stt.Rows {
			stt.set(r, "stop_id", ids[r%len(ids)])
		}
		if tf := m.t("transfers.txt"); tf != nil {
			for r := range tf.Rows {
				tf.set(r, "from_stop_id", ids[r%len(ids)])
				tf.set(r, "to_stop_id", ids[(r+3)%len(ids)])
			}
		}
	}
	b := renderFeed(m, presentation{})
	c.Input(hash64(string(b)), true, func() string { return m.text() })
	ref, err, ok := parseStaticGuarded(c, b, gtfs.ParseStaticOptions{})
	if !ok || err != nil {
		c.Fail("valid-feed-rejected", "%v", err)
		return
	}
	c.SetMapMode(mapFree)
	r, err, ok := parseStaticGuarded(c, b, gtfs.ParseStaticOptions{})
	c.SetMapMode(mapFixed)
	if !ok || err != nil {
		c.Fail("valid-feed-rejected", "%v", err)
		return
	}
	c.Steps(2)
	wd, gd := dumpStatic(ref, staticDumpOpts{}), dumpStatic(r, staticDumpOpts{})
	c.Outcome(gd)
	c.Relate("static-pure-function", string(b), gd)
	if wd != gd {
		c.Fail("static/"+classifyDiff(wd, gd), "the same archive parses to a different result under another map iteration order (Go randomises it per run and per loop)\n%s", diffLines(wd, gd))
	}
	if len(ref.Services) >= 3 {
		c.Witness("map_with_3+_entries_ranged")
	}
	if cycles {
		c.Witness("parent_cycles_present")
	}
}

// ---------------------------------------------------------------------------------------
// the wall clock is an environment answer too: the same bytes and configuration under
// different clocks (the overlay of package time lets the checker decide what Now returns)

func c06ClockFeeds() ([][]byte, []string) {
	t0 := int64(1700003600) // first stop time of the unassigned trips
	mk := func(ts *uint64, ents ...*gtfsrt.FeedEntity) []byte {
		m := newFeed(ts)
		m.Entity = ents
		return marshalFeed(m)
	}
	nyct := func(id, trip string, assigned bool, first int64) *gtfsrt.FeedEntity {
		td := &gtfsrt.TripDescriptor{TripId: sp(trip), RouteId: sp("L"), StartDate: sp("20231114")}
		proto.SetExtension(td, gtfsrt.E_NyctTripDescriptor, &gtfsrt.NyctTripDescriptor{TrainId: sp("0L " + id), IsAssigned: &assigned, Direction: gtfsrt.NyctTripDescriptor_NORTH.Enum()})
		return &gtfsrt.FeedEntity{Id: sp(id), TripUpdate: &gtfsrt.TripUpdate{Trip: td, StopTimeUpdate: []*gtfsrt.TripUpdate_StopTimeUpdate{
			{StopId: sp("L01N"), Arrival: &gtfsrt.TripUpdate_StopTimeEvent{Time: cp2(first)}, Departure: &gtfsrt.TripUpdate_StopTimeEvent{Time: cp2(first + 30)}},
			{StopId: sp("L02N"), Arrival: &gtfsrt.TripUpdate_StopTimeEvent{Time: cp2(first + 120)}}}}}
	}
	ents := func() []*gtfsrt.FeedEntity {
		return []*gtfsrt.FeedEntity{nyct("u1", "060000_L..N", false, t0), nyct("a1", "061000_L..N", true, t0+60), nyct("u2", "062000_L..N", false, t0-7200),
			{Id: sp("vp"), Vehicle: &gtfsrt.VehiclePosition{Vehicle: &gtfsrt.VehicleDescriptor{Id: sp("V1")}, Timestamp: u64p(uint64(t0))}},
			elevEntity(elevAlert{"A27", "N", "1"}, 0), plainAlertEntity("plain-1")}
	}
	zero, at, before := uint64(0), uint64(t0+10), uint64(t0-3600)
	return [][]byte{mk(nil, ents()...), mk(&zero, ents()...), mk(&at, ents()...), mk(&before, ents()...)}, []string{"header-without-timestamp", "header-timestamp-0", "header-after-first-stop", "header-before-first-stop"}
}

func u64p(v uint64) *uint64 { return &v }

var c06Clocks = []struct {
	name string
	at   time.Time // zero: the real clock
}{
	{"real", time.Time{}},
	{"1970-01-02", time.Unix(86400, 0)},
	{"10s-before-first-stop", time.Unix(1700003600-10, 0)},
	{"10s-after-first-stop", time.Unix(1700003600+10, 0)},
	{"2h-before-first-stop", time.Unix(1700003600-7300, 0)},
	{"2100-01-01", time.Date(2100, 1, 1, 0, 0, 0, 0, time.UTC)},
}

func c06WallClock() Harness {
	feeds, names := c06ClockFeeds()
	cfgs := c06Configs()
	zips := [][]byte{renderFeed(genStaticFeedN(&Ctx{}, false, baseCounts, nil, nil), presentation{})}
	return func(c *Ctx) {
		static := c.Free("kind", 2) == 1
		var dumps []string
		var desc string
		if static {
			desc = "static archive"
			for _, ck := range c06Clocks {
				var r *gtfs.Static
				var err error
				run := func() { r, err, _ = parseStaticGuarded(c, zips[0], gtfs.ParseStaticOptions{}) }
				if ck.at.IsZero() {
					run()
				} else {
					withClockAt(ck.at, run)
				}
				if err != nil || r == nil {
					c.Fail("valid-feed-rejected", "%v", err)
					return
				}
				dumps = append(dumps, dumpStatic(r, staticDumpOpts{}))
			}
		} else {
			cfg := cfgs[c.Free("configuration", len(cfgs))]
			f := c.Free("feed", len(feeds))
			desc = cfg.name + ": " + names[f]
			for _, ck := range c06Clocks {
				var r *gtfs.Realtime
				var err error
				var ok bool
				run := func() { r, err, ok = parseRT(c, append([]byte(nil), feeds[f]...), cfg.mk()) }
				if ck.at.IsZero() {
					run()
				} else {
					withClockAt(ck.at, run)
				}
				if !ok {
					return
				}
				if err != nil {
					c.Fail("valid-message-rejected", "%s: %v", desc, err)
					return
				}
				dumps = append(dumps, dumpRealtime(r, rtDumpOpts{links: true}))
			}
		}
		c.Input(hash64(desc), true, func() string {
			return desc + " parsed under the clocks real, 1970-01-02, around the first stop time, 2100-01-01"
		})
		c.Steps(len(c06Clocks))
		c.Outcome(dumps[0])
		for i := 1; i < len(dumps); i++ {
			if dumps[i] != dumps[0] {
				c.Fail("wall-clock-dependent/"+classifyDiff(dumps[0], dumps[i]), "%s: the same bytes and options parse to a different result when the wall clock shows %s\n%s", desc, c06Clocks[i].name, diffLines(dumps[0], dumps[i]))
				return
			}
		}
		c.Witness("parsed_under_6_clocks")
	}
}

// ---------------------------------------------------------------------------------------
// rejected inputs: the buffer (up to its capacity) must come back untouched as well

func c06RejectedInputs() Harness {
	cfgs := c06Configs()
	good := c06Feeds()[5]
	html := []byte("<html><head><title>503 Service Temporarily Unavailable</title></head><body><h1>Service Temporarily Unavailable</h1><p>try again later</p></body></html>")
	noID := marshalFeedPartial(func() *gtfsrt.FeedMessage {
		m := newFeed(cp(&tsAlphabet[0]))
		m.Entity = []*gtfsrt.FeedEntity{{TripUpdate: &gtfsrt.TripUpdate{Trip: &gtfsrt.TripDescriptor{TripId: sp("a-trip-with-a-rather-long-identifier-0123456789")}}}}
		return m
	}())
	b64 := []byte(base64.StdEncoding.EncodeToString(good))
	inputs := [][]byte{good[:len(good)/2], good[:len(good)-1], html, html[:33], html[:40], noID, append(append([]byte{}, good...), 0xff, 0xff, 0xff), {},
		[]byte("Rate limit exceeded. Try again in 30 seconds."), []byte("Unauthorized"), b64, b64[:len(b64)/2], []byte(`{"error":"not found"}`)}
	names := []string{"valid feed cut in half", "valid feed minus its last byte", "HTML error page", "33 bytes of HTML", "40 bytes of HTML", "entity without id (required field)", "valid feed + 3 stray bytes", "empty",
		"plain text 'Rate limit exceeded...'", "plain text 'Unauthorized'", "a base64-encoded feed", "half a base64-encoded feed", "a JSON error body"}
	zip := renderFeed(genStaticFeedN(&Ctx{}, false, baseCounts, nil, nil), presentation{})
	// an archive comment whose tail was cut off: the end-of-central-directory record announces 40 comment bytes, 12 follow
	withComment := append([]byte{}, zip...)
	withComment[len(withComment)-2], withComment[len(withComment)-1] = 40, 0
	withComment = append(withComment, []byte("feed of 2024")...)
	zinputs := [][]byte{zip[:len(zip)/2], zip[:len(zip)-1], html, append(append([]byte{}, zip[:200]...), zip[260:]...), {}, withComment}
	znames := []string{"archive cut in half", "archive minus its last byte", "HTML error page", "archive with 60 bytes removed", "empty", "archive with a truncated comment"}
	return func(c *Ctx) {
		static := c.Free("kind", 2) == 1
		spare := []int{0, 1, 64}[c.Free("spare_capacity", 3)]
		var src []byte
		var desc string
		var cfg rtConfig
		if static {
			k := c.Free("input", len(zinputs))
			src, desc = zinputs[k], "ParseStatic: "+znames[k]
		} else {
			cfg = cfgs[c.Free("configuration", len(cfgs))]
			k := c.Free("input", len(inputs))
			src, desc = inputs[k], cfg.name+": "+names[k]
		}
		desc += fmt.Sprintf(" (spare capacity %d)", spare)
		buf := make([]byte, len(src), len(src)+spare)
		copy(buf, src)
		for i := len(src); i < cap(buf); i++ {
			buf[:cap(buf)][i] = 0xA5
		}
		before := string(buf[:cap(buf)])
		c.Input(hash64(desc), true, func() string { return desc })
		var err error
		if static {
			_, err, _ = parseStaticGuarded(c, buf, gtfs.ParseStaticOptions{})
		} else {
			var ok bool
			_, err, ok = parseRT(c, buf, cfg.mk())
			if !ok {
				return
			}
		}
		c.Steps(1)
		if err == nil {
			c.Outcome("accepted")
		} else {
			c.Outcome("rejected")
			c.Witness("rejected_input")
		}
		if string(buf[:cap(buf)]) != before {
			c.Fail("input-mutated-on-rejection", "%s: the parser modified the caller's buffer (within its capacity) - error: %v", desc, err)
		}
	}
}

func c06RealtimeFeed() *gtfsrt.FeedMessage {
	m := newFeed(cp(&tsAlphabet[0]))
	for i := 1; i <= 3; i++ {
		m.Entity = append(m.Entity, &gtfsrt.FeedEntity{Id: sp(fmt.Sprintf("tu%d", i)), TripUpdate: &gtfsrt.TripUpdate{
			Trip: &gtfsrt.TripDescriptor{TripId: sp(fmt.Sprintf("T%d", 4-i)), RouteId: sp("R")}, Vehicle: &gtfsrt.VehicleDescriptor{Id: sp(fmt.Sprintf("V%d", i))},
			StopTimeUpdate: []*gtfsrt.TripUpdate_StopTimeUpdate{{StopId: sp(fmt.Sprintf("S%d", i))}}}})
	}
	// trips that differ only in one identifier component, incl. "start time 00:00:00" vs "no start time"
	for i, td := range []*gtfsrt.TripDescriptor{
		{TripId: sp("TT"), RouteId: sp("R"), StartTime: sp("00:00:00")},
		{TripId: sp("TT"), RouteId: sp("R")},
		{TripId: sp("TT"), RouteId: sp("R"), StartDate: sp("20240101")},
	} {
		m.Entity = append(m.Entity, &gtfsrt.FeedEntity{Id: sp(fmt.Sprintf("tie%d", i)), TripUpdate: &gtfsrt.TripUpdate{Trip: td, StopTimeUpdate: []*gtfsrt.TripUpdate_StopTimeUpdate{{StopId: sp(fmt.Sprintf("TS%d", i))}}}})
	}
	m.Entity = append(m.Entity, &gtfsrt.FeedEntity{Id: sp("vp"), Vehicle: &gtfsrt.VehiclePosition{Vehicle: &gtfsrt.VehicleDescriptor{Id: sp("V2")}, StopId: sp("VS2")}})
	m.Entity = append(m.Entity, &gtfsrt.FeedEntity{Id: sp("vp0"), Vehicle: &gtfsrt.VehiclePosition{StopId: sp("VS0")}})
	// vehicles that tie on the id: known by label or licence plate only, or sharing an id and differing in the label
	for i, vd := range []*gtfsrt.VehicleDescriptor{{Label: sp("bus C")}, {Label: sp("bus A")}, {LicensePlate: sp("plate B")}, {Id: sp("X"), Label: sp("2")}, {Id: sp("X"), Label: sp("1")}} {
		m.Entity = append(m.Entity, &gtfsrt.FeedEntity{Id: sp(fmt.Sprintf("tied%d", i)), Vehicle: &gtfsrt.VehiclePosition{Vehicle: vd, StopId: sp(fmt.Sprintf("VT%d", i))}})
	}
	// determinism is claimed for every input, conflicting ones included: a trip claimed by two
	// vehicles and a vehicle claimed by two trips
	m.Entity = append(m.Entity, &gtfsrt.FeedEntity{Id: sp("claim1"), Vehicle: &gtfsrt.VehiclePosition{Vehicle: &gtfsrt.VehicleDescriptor{Id: sp("W1")}, Trip: &gtfsrt.TripDescriptor{TripId: sp("T3"), RouteId: sp("R")}}})
	m.Entity = append(m.Entity, &gtfsrt.FeedEntity{Id: sp("claim2"), Vehicle: &gtfsrt.VehiclePosition{Vehicle: &gtfsrt.VehicleDescriptor{Id: sp("W2")}, Trip: &gtfsrt.TripDescriptor{TripId: sp("T3"), RouteId: sp("R")}}})
	m.Entity = append(m.Entity, &gtfsrt.FeedEntity{Id: sp("claim3"), TripUpdate: &gtfsrt.TripUpdate{Trip: &gtfsrt.TripDescriptor{TripId: sp("U1")}, Vehicle: &gtfsrt.VehicleDescriptor{Id: sp("W3")}}})
	m.Entity = append(m.Entity, &gtfsrt.FeedEntity{Id: sp("claim4"), TripUpdate: &gtfsrt.TripUpdate{Trip: &gtfsrt.TripDescriptor{TripId: sp("U2")}, Vehicle: &gtfsrt.VehicleDescriptor{Id: sp("W3")}}})
	a := &gtfsrt.Alert{}
	for _, r := range []string{"RB", "RA", "RC"} {
		a.InformedEntity = append(a.InformedEntity, &gtfsrt.EntitySelector{Trip: &gtfsrt.TripDescriptor{RouteId: sp(r)}, StopId: sp("stop-" + r)})
	}
	m.Entity = append(m.Entity, &gtfsrt.FeedEntity{Id: sp("alert"), Alert: a})
	return m
}

func c06MapOrderRealtime(c *Ctx) {
	m := c06RealtimeFeed()
	b := marshalFeed(m)
	c.Input(hash64(string(b)), true, func() string { return feedText(m) })
	ref, err, ok := parseRT(c, b, &gtfs.ParseRealtimeOptions{})
	if !ok || err != nil {
		c.Fail("valid-message-rejected", "%v", err)
		return
	}
	c.SetMapMode(mapFree)
	r, err, ok := parseRT(c, b, &gtfs.ParseRealtimeOptions{})
	c.SetMapMode(mapFixed)
	if !ok || err != nil {
		c.Fail("valid-message-rejected", "%v", err)
		return
	}
	c.Steps(2)
	o := rtDumpOpts{links: true}
	wd, gd := dumpRealtime(ref, o), dumpRealtime(r, o)
	c.Outcome(gd)
	c.Relate("realtime-pure-function", "none|"+string(b), gd)
	if wd != gd {
		c.Fail("realtime/"+classifyDiff(wd, gd), "the same message parses to a different result under another map iteration order\n%s", diffLines(wd, gd))
	}
	c.Witness("map_with_3+_entries_ranged")
}

// c06MapOrderExtensions: a message with NYCT content (an unplanned Mercury alert whose header uses the
// vocabulary of several causes, elevator alerts of two groups, assigned and unassigned trips) under
// bundled extension configurations, with every combination of map iteration starts inside the
// library AND the extensions.
func c06MapOrderExtensions(c *Ctx) {
	cfgs := c06Configs()
	pick := []int{3, 6, 21, 37} // one nycttrips configuration, three of nyctalerts
	cfg := cfgs[pick[c.Free("configuration", len(pick))]]
	c17AlarmingHeader = 3
	// (two selectors with different priorities: which of them decides the effect is not stated, but it is the same one every time)
	unplanned := c17MercuryEntity(nil, mercurySpec{prio1: 29, prio2: 20, prefix: 1, hasExt: true})
	c17AlarmingHeader = 0
	ts := uint64(1700000000)
	m := newFeed(&ts)
	m.Entity = []*gtfsrt.FeedEntity{unplanned, elevEntity(elevAlert{"A27", "N", "1"}, 0), elevEntity(elevAlert{"E01", "N", "1"}, 1), elevEntity(elevAlert{"A27", "S", "1"}, 2), plainAlertEntity("plain-1")}
	var more gtfsrt.FeedMessage
	if err := proto.Unmarshal(c06Feeds()[3], &more); err != nil {
		harnessBug("feed 3: %v", err)
	}
	m.Entity = append(m.Entity, more.Entity...)
	b := marshalFeed(m)
	c.Input(hash64(cfg.name+string(b)), true, func() string { return cfg.name + "\n" + feedText(m) })
	ref, err, ok := parseRT(c, b, cfg.mk())
	if !ok || err != nil {
		c.Fail("valid-message-rejected", "%v", err)
		return
	}
	c.SetMapMode(mapFree)
	r, err, ok := parseRT(c, b, cfg.mk())
	c.SetMapMode(mapFixed)
	if !ok || err != nil {
		c.Fail("valid-message-rejected", "%v", err)
		return
	}
	c.Steps(2)
	o := rtDumpOpts{links: true}
	wd, gd := dumpRealtime(ref, o), dumpRealtime(r, o)
	c.Outcome(gd)
	c.Relate("realtime-pure-function", cfg.name+"|"+string(b), gd)
	if wd != gd {
		c.Fail(cfg.family+"/map-order/"+classifyDiff(wd, gd), "%s: the same message parses to a different result under another map iteration order\n%s", cfg.name, diffLines(wd, gd))
	}
	c.Witness("map_orders_inside_extensions")
}

// ---------------------------------------------------------------------------------------
// histories

func c06Feeds() [][]byte { return c06FeedsWith("20240310", "") }

// c06FeedsWith builds the feed alphabet with the given start date and trip-id suffix (C18
// salts both per execution so that anything cached by input content is cold in every schedule).
func c06FeedsWith(startDate, idSuffix string) [][]byte {
	ts := uint64(1700000000)
	mk := func(ents ...*gtfsrt.FeedEntity) []byte {
		m := newFeed(&ts)
		m.Entity = ents
		return marshalFeed(m)
	}
	nyctTU := func(id, trip, route string, assigned bool, stops ...string) *gtfsrt.FeedEntity {
		td := &gtfsrt.TripDescriptor{TripId: sp(trip + idSuffix), RouteId: sp(route), StartDate: sp(startDate)}
		proto.SetExtension(td, gtfsrt.E_NyctTripDescriptor, &gtfsrt.NyctTripDescriptor{TrainId: sp("train " + id), IsAssigned: &assigned, Direction: gtfsrt.NyctTripDescriptor_SOUTH.Enum()})
		tu := &gtfsrt.TripUpdate{Trip: td}
		for i, s := range stops {
			u := &gtfsrt.TripUpdate_StopTimeUpdate{StopId: sp(s), Departure: &gtfsrt.TripUpdate_StopTimeEvent{Time: cp2(int64(ts) + int64(60*i) - 30)}}
			proto.SetExtension(u, gtfsrt.E_NyctStopTimeUpdate, &gtfsrt.NyctStopTimeUpdate{ScheduledTrack: sp("2")})
			tu.StopTimeUpdate = append(tu.StopTimeUpdate, u)
		}
		return &gtfsrt.FeedEntity{Id: sp(id), TripUpdate: tu}
	}
	// later: the entity's first stop time is moved d seconds after the header timestamp (an unassigned trip that is not stale)
	later := func(e *gtfsrt.FeedEntity, d int64) *gtfsrt.FeedEntity {
		e.TripUpdate.StopTimeUpdate[0].Departure.Time = cp2(int64(ts) + d)
		return e
	}
	merc := c17MercuryEntity(nil, mercurySpec{prio1: 29, prio2: -2, prefix: 0, hasExt: true})
	// NYCT oddities: assigned trips without a train id (as a trip update and as a vehicle), an
	// unassigned trip without stop times, a stop time update without a stop id on route M
	odd := func(id, trip string, vehicle bool) *gtfsrt.FeedEntity {
		td := &gtfsrt.TripDescriptor{TripId: sp(trip + idSuffix), RouteId: sp("M"), StartDate: sp(startDate)}
		yes := true
		proto.SetExtension(td, gtfsrt.E_NyctTripDescriptor, &gtfsrt.NyctTripDescriptor{IsAssigned: &yes})
		if vehicle {
			return &gtfsrt.FeedEntity{Id: sp(id), Vehicle: &gtfsrt.VehiclePosition{Trip: td, StopId: sp("M18N")}}
		}
		return &gtfsrt.FeedEntity{Id: sp(id), TripUpdate: &gtfsrt.TripUpdate{Trip: td, StopTimeUpdate: []*gtfsrt.TripUpdate_StopTimeUpdate{{StopSequence: u32p(3)}, {StopId: sp("M16N")}}}}
	}
	// everything at once: every optional field of trip updates, positions and alerts; alerts whose
	// selectors name routes through trip descriptors (both directions, one direction, next to an
	// explicit route), identifiable trips, agencies and route types; vehicles known by label only
	// and without any descriptor
	sink := func() []byte {
		u0, u1 := uint32(0), uint32(1)
		lat, lon, brg, spd := float32(40.7), float32(-73.9), float32(181.5), float32(9.5)
		odo := 12345.5
		td := func(id string) *gtfsrt.TripDescriptor {
			return &gtfsrt.TripDescriptor{TripId: sp(id + idSuffix), RouteId: sp("K"), DirectionId: &u1, StartTime: sp("25:10:00"), StartDate: sp(startDate), ScheduleRelationship: gtfsrt.TripDescriptor_ADDED.Enum()}
		}
		ev := func(t int64, d int32, un int32) *gtfsrt.TripUpdate_StopTimeEvent {
			return &gtfsrt.TripUpdate_StopTimeEvent{Time: cp2(t), Delay: cp32(d), Uncertainty: cp32(un)}
		}
		tr := func(s string) *gtfsrt.TranslatedString {
			return &gtfsrt.TranslatedString{Translation: []*gtfsrt.TranslatedString_Translation{{Text: sp(s), Language: sp("en")}, {Text: sp(s + " (es)"), Language: sp("es")}}}
		}
		routeOnly := func(route string, dir *uint32) *gtfsrt.EntitySelector {
			return &gtfsrt.EntitySelector{StopId: sp("KS-" + route), Trip: &gtfsrt.TripDescriptor{RouteId: sp(route), DirectionId: dir}}
		}
		return mk(
			&gtfsrt.FeedEntity{Id: sp("k-tu"), TripUpdate: &gtfsrt.TripUpdate{Trip: td("K1"), Vehicle: &gtfsrt.VehicleDescriptor{Id: sp("KV1" + idSuffix), Label: sp("kl"), LicensePlate: sp("kp")},
				StopTimeUpdate: []*gtfsrt.TripUpdate_StopTimeUpdate{
					{StopSequence: &u1, StopId: sp("KS1"), Arrival: ev(int64(ts)+60, 5, 1), Departure: ev(int64(ts)+90, -5, 2), ScheduleRelationship: gtfsrt.TripUpdate_StopTimeUpdate_SCHEDULED.Enum()},
					{StopSequence: &u0, Arrival: &gtfsrt.TripUpdate_StopTimeEvent{Delay: cp32(30)}, ScheduleRelationship: gtfsrt.TripUpdate_StopTimeUpdate_SKIPPED.Enum()},
					{StopId: sp("KS3"), ScheduleRelationship: gtfsrt.TripUpdate_StopTimeUpdate_NO_DATA.Enum()}}}},
			&gtfsrt.FeedEntity{Id: sp("k-vp"), Vehicle: &gtfsrt.VehiclePosition{Trip: td("K1"), Vehicle: &gtfsrt.VehicleDescriptor{Id: sp("KV1" + idSuffix), Label: sp("kl"), LicensePlate: sp("kp")},
				Position: &gtfsrt.Position{Latitude: &lat, Longitude: &lon, Bearing: &brg, Odometer: &odo, Speed: &spd}, CurrentStopSequence: &u1, StopId: sp("KS1"),
				CurrentStatus: gtfsrt.VehiclePosition_STOPPED_AT.Enum(), Timestamp: u64p(ts + 5), CongestionLevel: gtfsrt.VehiclePosition_STOP_AND_GO.Enum(),
				OccupancyStatus: gtfsrt.VehiclePosition_STANDING_ROOM_ONLY.Enum(), OccupancyPercentage: &u1}},
			&gtfsrt.FeedEntity{Id: sp("k-label-b"), Vehicle: &gtfsrt.VehiclePosition{Vehicle: &gtfsrt.VehicleDescriptor{Label: sp("label B")}, StopId: sp("KSB")}},
			&gtfsrt.FeedEntity{Id: sp("k-label-a"), Vehicle: &gtfsrt.VehiclePosition{Vehicle: &gtfsrt.VehicleDescriptor{Label: sp("label A"), LicensePlate: sp("plate")}, StopId: sp("KSA")}},
			&gtfsrt.FeedEntity{Id: sp("k-bare-1"), Vehicle: &gtfsrt.VehiclePosition{StopId: sp("KSX"), Trip: td("K2")}},
			&gtfsrt.FeedEntity{Id: sp("k-bare-2"), Vehicle: &gtfsrt.VehiclePosition{StopId: sp("KSY")}},
			&gtfsrt.FeedEntity{Id: sp("k-alert"), Alert: &gtfsrt.Alert{
				ActivePeriod: []*gtfsrt.TimeRange{{Start: u64p(ts), End: u64p(ts + 3600)}, {Start: u64p(ts + 7200)}, {End: u64p(ts + 9000)}},
				InformedEntity: []*gtfsrt.EntitySelector{{AgencyId: sp("KA")}, {RouteId: sp("KR1"), DirectionId: &u0}, {RouteType: cp32(1)}, {StopId: sp("KS1")},
					routeOnly("KR2", &u0), routeOnly("KR2", &u1), routeOnly("KR3", &u1), routeOnly("KR1", nil), routeOnly("KR4", nil), routeOnly("KR6", nil), routeOnly("KR6", &u0), routeOnly("KR7", &u1), routeOnly("KR7", nil),
					{Trip: td("K1")}, {Trip: td("K9")}, {Trip: &gtfsrt.TripDescriptor{RouteId: sp("KR5"), DirectionId: &u0, StartTime: sp("10:00:00"), StartDate: sp(startDate)}}, {RouteType: cp32(99)}},
				Cause: gtfsrt.Alert_CONSTRUCTION.Enum(), Effect: gtfsrt.Alert_NO_EFFECT.Enum(), Url: tr("http://example.com/k"), HeaderText: tr("k header"), DescriptionText: tr("k description")}},
			&gtfsrt.FeedEntity{Id: sp("k-alert-2"), Alert: &gtfsrt.Alert{InformedEntity: []*gtfsrt.EntitySelector{routeOnly("KR2", &u1), {RouteId: sp("KR3")}, routeOnly("KR3", &u0)}}},
		)
	}
	more := func() []*gtfsrt.FeedEntity {
		yes := true
		td := &gtfsrt.TripDescriptor{TripId: sp("074000_M..N20R" + idSuffix), RouteId: sp("M"), StartDate: sp(startDate)}
		proto.SetExtension(td, gtfsrt.E_NyctTripDescriptor, &gtfsrt.NyctTripDescriptor{TrainId: sp("train o7"), IsAssigned: &yes, Direction: gtfsrt.NyctTripDescriptor_NORTH.Enum()})
		u1 := &gtfsrt.TripUpdate_StopTimeUpdate{StopId: sp("M08N")} // no times at the first stop; not an affected platform
		proto.SetExtension(u1, gtfsrt.E_NyctStopTimeUpdate, &gtfsrt.NyctStopTimeUpdate{ScheduledTrack: sp("1"), ActualTrack: sp("2")})
		u2 := &gtfsrt.TripUpdate_StopTimeUpdate{StopId: sp("M11X"), Arrival: &gtfsrt.TripUpdate_StopTimeEvent{Time: cp2(int64(ts) + 100)}}
		u3 := &gtfsrt.TripUpdate_StopTimeUpdate{StopId: sp("M1"), Arrival: &gtfsrt.TripUpdate_StopTimeEvent{Time: cp2(int64(ts) + 200)}}
		td2 := proto.Clone(td).(*gtfsrt.TripDescriptor)
		td2.TripId = sp("075000_M..S20R" + idSuffix)
		no := false
		proto.SetExtension(td2, gtfsrt.E_NyctTripDescriptor, &gtfsrt.NyctTripDescriptor{TrainId: sp("train o8"), IsAssigned: &no, Direction: gtfsrt.NyctTripDescriptor_SOUTH.Enum()})
		return []*gtfsrt.FeedEntity{
			{Id: sp("o7"), TripUpdate: &gtfsrt.TripUpdate{Trip: td, Vehicle: &gtfsrt.VehicleDescriptor{Id: sp("existing"), Label: sp("existing label")}, StopTimeUpdate: []*gtfsrt.TripUpdate_StopTimeUpdate{u1, u2, u3}}},
			{Id: sp("o7v"), Vehicle: &gtfsrt.VehiclePosition{Trip: td, Vehicle: &gtfsrt.VehicleDescriptor{Id: sp("existing")}, StopId: sp("M08N")}},
			{Id: sp("o8"), TripUpdate: &gtfsrt.TripUpdate{Trip: td2, StopTimeUpdate: []*gtfsrt.TripUpdate_StopTimeUpdate{{StopId: sp("M12S")}}}},
		}
	}
	return [][]byte{
		mk(),
		mk(elevEntity(elevAlert{"A27", "N", "1"}, 0), elevEntity(elevAlert{"A27", "S", "1"}, 1)),
		mk(elevEntity(elevAlert{"A27", "S", "1"}, 0), elevEntity(elevAlert{"E01", "N", "1"}, 1), plainAlertEntity("plain-1")),
		mk(nyctTU("e1", "063000_M..S20R", "M", true, "M11N", "M12N"), nyctTU("e2", "064000_M..S20R", "M", false, "M16S")),
		mk(nyctTU("e1", "070000_J..N20R", "J", false, "M11N"), later(nyctTU("e3", "070500_J..N20R", "J", false, "M11N", "M12N"), 600), &gtfsrt.FeedEntity{Id: sp("vp"), Vehicle: &gtfsrt.VehiclePosition{Vehicle: &gtfsrt.VehicleDescriptor{Id: sp("V1")}, Trip: &gtfsrt.TripDescriptor{TripId: sp("plain")}}}),
		mk(merc, c17MercuryEntity(nil, mercurySpec{prio1: 2, prio2: -2, prefix: 1, hasExt: true}), nyctTU("e1", "063000_M..S20R", "M", true, "M11N"), elevEntity(elevAlert{"A27", "N", "1"}, 0), elevEntity(elevAlert{"A27", "S", "1"}, 1), elevEntity(elevAlert{"A27", "", "1"}, 2)),
		mk(odd("o1", "071000_M..N20R", false), odd("o2", "071000_M..N20R", true), odd("o3", "072000_M..N20R", false), nyctTU("o4", "073000_M..S20R", "M", false),
			// NYCT descriptors on ids that are NOT of the NYCT form but share their first six characters with
			// well-formed ids of the other feeds
			nyctTU("o5", "063000_M.S20R", "M", true, "M11N"), nyctTU("o6", "070000_J..N20R-2", "J", false, "M12N"), more()[0], more()[1], more()[2]),
		sink(),
		func() []byte {
			e := c17MercuryEntity(nil, mercurySpec{prio1: 29, prio2: -2, prefix: 0, hasExt: true})
			ma := proto.GetExtension(e.Alert, gtfsrt.E_MercuryAlert).(*gtfsrt.MercuryAlert)
			ma.CreatedAt = u64p(*ma.CreatedAt + 86400)
			ma.DisplayBeforeActive = u64p(300)
			ma.HumanReadableActivePeriod = &gtfsrt.TranslatedString{Translation: []*gtfsrt.TranslatedString_Translation{{Text: sp("Every Tuesday")}}}
			return mk(e, plainAlertEntity("plain-2"))
		}(),
		// a message whose header is an hour ahead of the others' (an archive replayed out of order, a retry of
		// an older download): what "stale" means for the messages parsed after it is still decided by their own header
		func() []byte {
			m := newFeed(u64p(ts + 3600))
			m.Entity = []*gtfsrt.FeedEntity{nyctTU("f1", "080000_J..N20R", "J", true, "M11N")}
			return marshalFeed(m)
		}(),
	}
}

var c06FeedNames = []string{"empty", "elevators-1", "elevators-2", "nyct-trips-1", "nyct-trips-2", "mixed", "nyct-oddities", "kitchen-sink", "mixed-alert-again-with-other-metadata", "nyct-trips-header-an-hour-ahead"}

type rtConfig struct {
	name   string
	family string
	mk     func() *gtfs.ParseRealtimeOptions
}

func c06Configs() []rtConfig {
	cfgs := []rtConfig{{"options{Extension:nil}", "nil-extension", func() *gtfs.ParseRealtimeOptions { return &gtfs.ParseRealtimeOptions{} }}}
	cfgs = append(cfgs, rtConfig{"options{Extension:NoExtension,Timezone:nil}", "no-op-extension", func() *gtfs.ParseRealtimeOptions {
		return &gtfs.ParseRealtimeOptions{Extension: extensions.NoExtension()}
	}})
	for i, o := range nyctOptCombos {
		o := o
		tz := zoneNY
		if i%2 == 1 {
			tz = nil // the caller leaves the zone to the default
		}
		cfgs = append(cfgs, rtConfig{"nycttrips" + nyctOptName(o) + fmt.Sprintf("/tz=%v", tz), "nycttrips", func() *gtfs.ParseRealtimeOptions {
			return &gtfs.ParseRealtimeOptions{Timezone: tz, Extension: nycttrips.Extension(o)}
		}})
	}
	for _, p := range policies {
		for _, st := range []bool{false, true} {
			for _, sk := range []bool{false, true} {
				for _, md := range []bool{false, true} {
					o := nyctalerts.ExtensionOpts{ElevatorAlertsDeduplicationPolicy: p, ElevatorAlertsInformUsingStationIDs: st, SkipTimetabledNoServiceAlerts: sk, AddNyctMetadata: md}
					cfgs = append(cfgs, rtConfig{fmt.Sprintf("nyctalerts%+v", o), "nyctalerts", func() *gtfs.ParseRealtimeOptions {
						return &gtfs.ParseRealtimeOptions{Extension: nyctalerts.Extension(o)}
					}})
				}
			}
		}
	}
	return cfgs
}

func c06History(maxLen int) Harness {
	feeds := c06Feeds()
	cfgs := c06Configs()
	return func(c *Ctx) {
		cfg := cfgs[c.Free("configuration", len(cfgs))]
		n := 1 + c.Free("history_length", maxLen)
		var seq []int
		var names []string
		for i := 0; i < n; i++ {
			f := c.Free(fmt.Sprintf("call[%d]", i), len(feeds))
			seq = append(seq, f)
			names = append(names, c06FeedNames[f])
		}
		desc := cfg.name + ": " + strings.Join(names, " -> ")
		c.Input(hash64(desc), n >= 2, func() string { return desc })
		// a result belongs to the caller: it may overwrite everything reachable from the previous result
		// before the next call (in place "normalisation"); nothing the library keeps may be affected
		scribblePrevious := n >= 2 && c.Free("caller_overwrites_previous_results_in_place", 2) == 1
		if scribblePrevious {
			desc += " [previous results overwritten in place]"
			c.Witness("previous_result_overwritten_in_place")
		}
		shared := cfg.mk()
		sharedWasNil := shared.Extension == nil
		tzBefore := shared.Timezone
		var last *gtfs.Realtime
		for i, f := range seq {
			// between two calls the caller may assign another Timezone to the options value it reuses:
			// the public fields at the time of the call are what counts
			if i > 0 {
				if c.Free(fmt.Sprintf("call[%d].caller_assigns_another_timezone", i), 2) == 1 {
					if tzBefore == zoneLondon {
						tzBefore = zoneNY
					} else {
						tzBefore = zoneLondon
					}
					shared.Timezone = tzBefore
					desc += fmt.Sprintf(" [Timezone:=%v before call %d]", tzBefore, i)
					c.Witness("caller_changed_timezone_between_calls")
				}
			}
			if i > 0 && last != nil && scribblePrevious {
				scribble(last)
			}
			in := append([]byte(nil), feeds[f]...)
			r, err, ok := parseRT(c, in, shared)
			if !ok {
				return
			}
			if err != nil {
				c.Fail("valid-message-rejected", "%s: %v", desc, err)
				return
			}
			if string(in) != string(feeds[f]) {
				c.Fail(cfg.family+"/input-mutated", "%s: ParseRealtime modified its input", desc)
			}
			last = r
		}
		c.Steps(n + 1)
		if shared.Timezone != tzBefore {
			c.Fail(cfg.family+"/caller-options-mutated", "%s: ParseRealtime wrote to the caller's options (Timezone was %v, is now %v)", desc, tzBefore, shared.Timezone)
		}
		if sharedWasNil && shared.Extension != nil {
			c.Fail(cfg.family+"/caller-options-mutated", "%s: ParseRealtime wrote to the caller's options (Extension was nil, is now %T)", desc, shared.Extension)
		}
		freshOpts := cfg.mk()
		freshOpts.Timezone = tzBefore
		fresh, err, ok := parseRT(c, append([]byte(nil), feeds[seq[n-1]]...), freshOpts)
		if !ok || err != nil {
			return
		}
		o := rtDumpOpts{links: true}
		wd, gd := dumpRealtime(fresh, o), dumpRealtime(last, o)
		c.Outcome(gd)
		c.Relate("realtime-pure-function", cfg.name+fmt.Sprintf("|tz=%v|", tzBefore)+string(feeds[seq[n-1]]), gd)
		if wd != gd {
			c.Fail(cfg.family+"/history-dependent/"+classifyDiff(wd, gd), "%s: the last call's result differs from the same call on a fresh options/extension object\n%s", desc, diffLines(wd, gd))
		}
		if n >= 2 && seq[n-1] == seq[0] {
			c.Witness("same_feed_parsed_again")
		}
	}
}

func c06StaticHistory(c *Ctx) {
	n := 1 + c.Free("history_length", 3)
	var models []*feedModel
	base := genStaticFeedN(c, false, baseCounts, nil, nil)
	big := c06StaticFeed(c)
	other := base.clone()
	other.t("agency.txt").set(0, "agency_timezone", "Asia/Kolkata")
	other.t("calendar.txt").set(0, "start_date", "20240310")
	models = append(models, base, big, other)
	var last *gtfs.Static
	var lastBytes []byte
	var names []string
	for i := 0; i < n; i++ {
		f := c.Free(fmt.Sprintf("call[%d]", i), 3)
		inherit := c.Free(fmt.Sprintf("call[%d].inherit", i), 2) == 1
		names = append(names, fmt.Sprintf("%d/inherit=%v", f, inherit))
		if last != nil {
			scribble(last)
		}
		b := renderFeed(models[f], presentation{})
		in := append([]byte(nil), b...)
		r, err, ok := parseStaticGuarded(c, in, gtfs.ParseStaticOptions{InheritWheelchairBoarding: inherit})
		if !ok || err != nil {
			c.Fail("valid-feed-rejected", "%v", err)
			return
		}
		if string(in) != string(b) {
			c.Fail("static/input-mutated", "ParseStatic modified its input")
		}
		last, lastBytes = r, append(b, fmt.Sprint(inherit)...)
	}
	c.Steps(n)
	c.Input(hash64(strings.Join(names, ",")), n >= 2, func() string { return "static parses: " + strings.Join(names, " -> ") })
	gd := dumpStatic(last, staticDumpOpts{})
	c.Outcome(gd)
	c.Relate("static-pure-function", string(lastBytes), gd)
}

// ---------------------------------------------------------------------------------------
// process-level state: histories executed in pristine processes

// Symbols of the fresh-process alphabet: the same calendar dates / start dates under
// different zones, so that anything cached per process across calls shows.
var c06FreshSymbols = []string{"static/New_York", "static/Kolkata", "rt/New_York", "rt/UTC", "rt/London", "static/unknown-zone", "rt/EST(-5h)", "rt/EST(+10h)"}

func c06FreshInput(sym int) (static []byte, rt []byte, tz *time.Location) {
	switch sym {
	case 0, 1, 5:
		m := genStaticFeedN(&Ctx{}, false, baseCounts, nil, nil)
		if sym == 1 {
			m.t("agency.txt").set(0, "agency_timezone", "Asia/Kolkata")
		}
		if sym == 5 {
			m.t("agency.txt").set(0, "agency_timezone", "Mars/Phobos") // unknown: dates fall back to UTC
		}
		return renderFeed(m, presentation{}), nil, nil
	}
	if sym >= 6 {
		return nil, c06Feeds()[3], []*time.Location{time.FixedZone("EST", -5*3600), time.FixedZone("EST", 10*3600)}[sym-6]
	}
	return nil, c06Feeds()[3], []*time.Location{zoneNY, time.UTC, zoneLondon}[sym-2]
}

const oneshotSep = "\n=====ONESHOT=====\n"

// c06Oneshot runs the calls named by spec ("0,3,2") in this process and prints their dumps.
func c06Oneshot(spec string) {
	var out []string
	for _, f := range strings.Split(spec, ",") {
		sym := 0
		fmt.Sscanf(f, "%d", &sym)
		st, rt, tz := c06FreshInput(sym)
		if st != nil {
			r, err := gtfs.ParseStatic(st, gtfs.ParseStaticOptions{})
			if err != nil {
				out = append(out, "error: "+err.Error())
			} else {
				out = append(out, dumpStatic(r, staticDumpOpts{}))
			}
		} else {
			r, err := gtfs.ParseRealtime(rt, &gtfs.ParseRealtimeOptions{Timezone: tz, Extension: nycttrips.Extension(nycttrips.ExtensionOpts{})})
			if err != nil {
				out = append(out, "error: "+err.Error())
			} else {
				out = append(out, dumpRealtime(r, rtDumpOpts{links: true}))
			}
		}
	}
	realStdout.WriteString(strings.Join(out, oneshotSep))
}

var oneshotCache = map[string][]string{}

func runOneshot(spec string) []string {
	if v, ok := oneshotCache[spec]; ok {
		return v
	}
	exe, err := os.Executable()
	if err != nil {
		harnessBug("executable: %v", err)
	}
	cmd := exec.Command(exe, "--oneshot", spec)
	cmd.Env = append(os.Environ(), "GOMAXPROCS=1")
	b, err := cmd.Output()
	if err != nil {
		harnessBug("oneshot %s: %v", spec, err)
	}
	v := strings.Split(string(b), oneshotSep)
	oneshotCache[spec] = v
	return v
}

// c06FreshProcess: every history of <= 3 calls over the 5 symbols runs in a pristine process;
// each call's dump must equal the dump of that call as the only call of another pristine
// process. Fully replayable: no state of the exploring process is involved.
func c06FreshProcess(maxLen int) Harness {
	return func(c *Ctx) { c06FreshProcessRun(c, maxLen) }
}

func c06FreshProcessRun(c *Ctx, maxLen int) {
	n := 1 + c.Free("history_length", maxLen)
	var syms []string
	var names []string
	for i := 0; i < n; i++ {
		k := c.Free(fmt.Sprintf("call[%d]", i), len(c06FreshSymbols))
		syms = append(syms, fmt.Sprint(k))
		names = append(names, c06FreshSymbols[k])
	}
	desc := "pristine process: " + strings.Join(names, " -> ")
	c.Input(hash64(desc), n >= 2, func() string { return desc })
	got := runOneshot(strings.Join(syms, ","))
	c.Steps(n)
	if len(got) != n {
		c.Fail("process-state/crash", "%s: the process printed %d results for %d calls", desc, len(got), n)
		return
	}
	c.Outcome(strings.Join(got, "|"))
	for i := range syms {
		want := runOneshot(syms[i])[0]
		if got[i] != want {
			c.Fail("process-state/"+classifyDiff(want, got[i]), "%s: call %d (%s) returns something else than as the first call of a process - state outlives a call\n%s", desc, i, names[i], diffLines(want, got[i]))
			return
		}
	}
	if n >= 2 {
		c.Witness("history_in_pristine_process")
	}
}

var _ = extensions.NoExtension
var _ = sort.Strings

func init() {
	register(&Check{
		ID:    "C06",
		Level: "model_checking",
		Rule: "(1) every combination of iteration starts at every library map range (choice points owned through the runtime overlay) for a static archive with 3 services/3 shapes/3 trips/3 sibling stops and a realtime message with 3 id-bearing vehicles, 3 trips and an alert with 3 fall-back routes; (2) all call sequences of <= 3 (thorough <= 5) over 10 feeds (one with its header an hour ahead of the others) on ONE shared options/extension object - whose Timezone field the caller may reassign between calls, and whose earlier results the caller may overwrite in place (every value reachable through pointers and slices) - for each of 38 configurations (nil Extension, explicit no-op, 4 nycttrips with and without Timezone, 32 nyctalerts), and all sequences of <= 3 static parses over 3 archives x inherit option; (3) relation (bytes, configuration) -> dump over every parse of the run, across worker processes; (4) all histories of <= 3 (thorough 4) calls over {static archive in New_York / Kolkata / an unknown zone, realtime feed under New_York / UTC / London / two fixed zones both named EST} each executed in its own pristine process and compared call by call with single-call pristine processes; " +
			"(5) the same archive / message x 38 configurations parsed under 6 wall clocks (real, 1970, around the first stop time of unassigned NYCT trips, 2100; headers with / without / zero timestamp): identical dumps; the map-order archive also with a 3-cycle, a 2-cycle and a self-parent among its stops; (6) rejected inputs (truncated, HTML, plain text, JSON, base64, missing required field, stray bytes) with 0 / 1 / 64 bytes of spare capacity: buffer unchanged up to its capacity; " +
			"non-trivial = distinct histories of >= 2 calls or inputs with a >= 3-entry library map; oracle = differential (rotated vs. fixed order, reused vs. fresh object) with content and order compared",
		Assumptions: []string{"library maps are single-bucket (<= 8 entries) in these inputs, so rotations are all achievable orders; uncontrolled_maps counts any exception", "process-level state (package variables) is exercised by running histories in 16 separate worker processes that must all agree"},
		Scenarios: func(tier string) []*Scenario {
			n, np := 3, 3
			if tier == "thorough" {
				n, np = 5, 4
			}
			return []*Scenario{
				{Name: "map-orders/static", Bound: -1, Run: c06MapOrderStatic(false)},
				{Name: "map-orders/static-with-parent-cycles", Bound: -1, Run: c06MapOrderStatic(true)},
				{Name: "wall-clock", Bound: -1, Run: c06WallClock()},
				{Name: "rejected-inputs", Bound: -1, Run: c06RejectedInputs()},
				{Name: "map-orders/realtime", Bound: -1, Run: c06MapOrderRealtime},
				{Name: "map-orders/realtime-under-extensions", Bound: -1, Run: c06MapOrderExtensions},
				{Name: fmt.Sprintf("histories<=%d/realtime", n), Bound: -1, Run: c06History(n)},
				{Name: "histories<=3/static", Bound: -1, Run: c06StaticHistory},
				{Name: fmt.Sprintf("histories<=%d/pristine-processes", np), Bound: -1, Run: c06FreshProcess(np)},
			}
		},
	})
}
