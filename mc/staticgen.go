package main

// Generator of well-formed static feeds: a base feed in which every cell of a row (and the
// same column of different rows) holds a different value, plus choice points for the row
// count of every table, every cell (boundary values per kind of column) and the presentation.

import (
	"fmt"
	"strings"
)

type colKind int

const (
	kID      colKind = iota // primary key: generated, never varied directly
	kRef                    // reference: filled by the generator
	kText                   // free text, may be blank
	kTextReq                // free text, required (never blank)
	kEnum                   // enum digit, explicit (well-formed feeds write default-bearing fields explicitly)
	kTimeOfDay
	kDecimalOpt // optional decimal: blank allowed
	kDecimalReq
	kIntOpt
	kIntReq
	kDate
	kZone
	kBool
	kColor
	kSeq // sequence number: filled by the generator
)

type colSpec struct {
	Name string
	Kind colKind
	Enum []string
}

var textAlts = []string{"with space", `comma, and "quote"`, "ünï-çødé 日本", "line1\nline2", "#7 starts with a hash", "", "para 1\n\npara 2\n \npara 3", "A &amp; B &lt;i&gt; &#39;q&#39; ?a=1&region=x&copy=2", "Cafe\u0301 u\u0308 \u212b \u2126 \ufb01 (not NFC)", "  (two leading blanks and no reason to quote the cell)"}
var timeAlts = []string{"00:00:00", "4:05:06", "25:10:05", "47:59:59"}

// 16.842632, 3.543709: six decimals whose nearest float64 is missed when the integer and the fraction are converted separately
var decimalAlts = []string{"0", "1.5", "-0.1281", "16.842632", "3.543709", "-73.25", " 2.5 ", "1e-3", "40.295390375177476", "-106.85272440696379", "1592.7733726954207", "11216.913859208591"}
var intAlts = []string{"0", "-5", "2147483647"}
var dateAlts = []string{"20240310", "20231105", "19700101", "20240229", "20241231", "20241006", "20240407", "99991231", "00010101", "20240908"}
var zoneAlts = []string{"Europe/London", "Asia/Kolkata", "UTC", "Mars/Phobos", "Australia/Sydney", "Australia/Lord_Howe", "Japan", "EST5EDT", "America/Santiago", "America/New_York"}
var colorAlts = []string{"FFFFFF", "000000", "ff00aa"}

var (
	pdEnum = []string{"0", "1", "2", "3"}
	wbEnum = []string{"0", "1", "2"}
)

var staticSpecs = map[string][]colSpec{
	"agency.txt": {{"agency_id", kID, nil}, {"agency_name", kTextReq, nil}, {"agency_url", kTextReq, nil}, {"agency_timezone", kZone, nil}, {"agency_lang", kText, nil},
		{"agency_phone", kText, nil}, {"agency_fare_url", kText, nil}, {"agency_email", kText, nil}},
	"routes.txt": {{"route_id", kID, nil}, {"agency_id", kRef, nil}, {"route_color", kColor, nil}, {"route_text_color", kColor, nil}, {"route_short_name", kText, nil},
		{"route_long_name", kText, nil}, {"route_desc", kText, nil}, {"route_type", kEnum, []string{"0", "1", "2", "3", "4", "5", "6", "7", "11", "12"}}, {"route_url", kText, nil},
		{"route_sort_order", kIntOpt, nil}, {"continuous_pickup", kEnum, pdEnum}, {"continuous_drop_off", kEnum, pdEnum}},
	"stops.txt": {{"stop_id", kID, nil}, {"stop_code", kText, nil}, {"stop_name", kText, nil}, {"stop_desc", kText, nil}, {"zone_id", kText, nil}, {"stop_lon", kDecimalOpt, nil},
		{"stop_lat", kDecimalOpt, nil}, {"stop_url", kText, nil}, {"location_type", kRef, nil}, {"parent_station", kRef, nil}, {"stop_timezone", kText, nil},
		{"wheelchair_boarding", kEnum, wbEnum}, {"platform_code", kText, nil}},
	"transfers.txt": {{"from_stop_id", kRef, nil}, {"to_stop_id", kRef, nil}, {"transfer_type", kEnum, []string{"0", "1", "2", "3"}}, {"min_transfer_time", kIntOpt, nil}},
	"calendar.txt": {{"service_id", kID, nil}, {"monday", kBool, nil}, {"tuesday", kBool, nil}, {"wednesday", kBool, nil}, {"thursday", kBool, nil}, {"friday", kBool, nil},
		{"saturday", kBool, nil}, {"sunday", kBool, nil}, {"start_date", kDate, nil}, {"end_date", kDate, nil}},
	"calendar_dates.txt": {{"service_id", kRef, nil}, {"date", kDate, nil}, {"exception_type", kEnum, []string{"1", "2"}}},
	"shapes.txt":         {{"shape_id", kRef, nil}, {"shape_pt_lat", kDecimalReq, nil}, {"shape_pt_lon", kDecimalReq, nil}, {"shape_pt_sequence", kSeq, nil}, {"shape_dist_traveled", kDecimalOpt, nil}},
	"trips.txt": {{"route_id", kRef, nil}, {"service_id", kRef, nil}, {"trip_id", kID, nil}, {"trip_headsign", kText, nil}, {"trip_short_name", kText, nil},
		{"direction_id", kEnum, []string{"0", "1"}}, {"block_id", kText, nil}, {"wheelchair_accessible", kEnum, wbEnum}, {"bikes_allowed", kEnum, wbEnum}, {"shape_id", kRef, nil}},
	"frequencies.txt": {{"trip_id", kRef, nil}, {"start_time", kTimeOfDay, nil}, {"end_time", kTimeOfDay, nil}, {"headway_secs", kIntReq, nil}, {"exact_times", kEnum, []string{"0", "1"}}},
	"stop_times.txt": {{"trip_id", kRef, nil}, {"arrival_time", kTimeOfDay, nil}, {"departure_time", kTimeOfDay, nil}, {"stop_id", kRef, nil}, {"stop_sequence", kSeq, nil}, {"stop_headsign", kText, nil},
		{"pickup_type", kEnum, pdEnum}, {"drop_off_type", kEnum, pdEnum}, {"continuous_pickup", kEnum, pdEnum}, {"continuous_drop_off", kEnum, pdEnum},
		{"shape_dist_traveled", kDecimalOpt, nil}, {"timepoint", kEnum, []string{"1", "0"}}},
}

var staticFileOrder = []string{"agency.txt", "routes.txt", "stops.txt", "transfers.txt", "calendar.txt", "calendar_dates.txt", "shapes.txt", "trips.txt", "frequencies.txt", "stop_times.txt"}

var idStyles = []string{"%s%d", "%s %d", `%s,"%d"`, "%s-é%d", "#%s%d"}

// caseVariantID: ids that are equal under case folding and distinct as written ("Aqz", "aqz",
// "AQz", "aQz", ...): ids are compared verbatim.
func caseVariantID(prefix string, i int) string {
	base := []byte(strings.ToLower(prefix) + "qz")
	for k := range base {
		if ((i+1)>>uint(k))&1 == 1 && base[k] >= 'a' && base[k] <= 'z' {
			base[k] -= 'a' - 'A'
		}
	}
	return string(base) + strings.Repeat("'", i/(1<<uint(len(base))))
}

type staticGen struct {
	c *Ctx
	// vary: when false every choice takes its default without creating a choice point (used
	// by checks that only need the base feed and make their own choices)
	vary  bool
	salt  int
	style map[string]int
}

func (g *staticGen) choose(label string, n int) int {
	if !g.vary {
		return 0
	}
	return g.c.Choose(label, n)
}

// ref is a choice point for the target of a reference: the default is base, the other
// targets follow in ascending order.
func (g *staticGen) ref(label string, base, n int) int {
	if n <= 1 {
		return base % max1(n)
	}
	base = base % n
	k := g.choose(label, n)
	if k == 0 {
		return base
	}
	if k <= base {
		return k - 1
	}
	return k
}

func max1(n int) int {
	if n < 1 {
		return 1
	}
	return n
}

func (g *staticGen) id(prefix string, i int) string {
	st, ok := g.style[prefix]
	if !ok {
		st = g.choose("idstyle."+prefix, len(idStyles)+1)
		g.style[prefix] = st
	}
	if st == len(idStyles) {
		return caseVariantID(prefix, i)
	}
	return fmt.Sprintf(idStyles[st], prefix, i+1)
}

// cell produces the value of an ordinary (non id / ref / seq) cell.
func (g *staticGen) cell(file string, row int, sp colSpec) string {
	label := fmt.Sprintf("%s[%d].%s", file[:len(file)-4], row, sp.Name)
	g.salt++
	u := g.salt // unique per cell
	alt := func(base string, alts []string) string {
		if row > 0 {
			switch sp.Kind {
			case kText, kTimeOfDay, kDecimalOpt, kDecimalReq, kColor:
				// "the same value as the row above" (resolved when the row is complete)
				alts = append(append([]string{}, alts...), prevSentinel)
			}
		}
		k := g.choose(label, len(alts)+1)
		if k == 0 {
			return base
		}
		return alts[k-1]
	}
	switch sp.Kind {
	case kText:
		return alt(fmt.Sprintf("%s %d", sp.Name, u), textAlts)
	case kTextReq:
		return alt(fmt.Sprintf("%s %d", sp.Name, u), append(append([]string{}, textAlts[:5]...), textAlts[6:]...))
	case kEnum:
		base := sp.Enum[(u+row)%len(sp.Enum)]
		k := g.choose(label, len(sp.Enum))
		if k == 0 {
			return base
		}
		// the other digits in order
		j := 0
		for _, e := range sp.Enum {
			if e == base {
				continue
			}
			j++
			if j == k {
				return e
			}
		}
		return base
	case kTimeOfDay:
		return alt(fmt.Sprintf("%02d:%02d:%02d", 5+u%18, u%60, (u*7)%60), timeAlts)
	case kDecimalOpt:
		return alt(fmt.Sprintf("%d.%d", 10+u%70, 1+u%9), append(append([]string{}, decimalAlts...), ""))
	case kDecimalReq:
		return alt(fmt.Sprintf("-%d.%d", 10+u%70, 1+u%9), decimalAlts)
	case kIntOpt:
		return alt(fmt.Sprintf("%d", 3+u), append(append([]string{}, intAlts...), ""))
	case kIntReq:
		return alt(fmt.Sprintf("%d", 300+u), intAlts)
	case kDate:
		return alt(fmt.Sprintf("2024%02d%02d", 1+u%12, 1+u%28), dateAlts)
	case kZone:
		if row == 0 {
			return alt("America/New_York", zoneAlts[:9])
		}
		return alt(zoneAlts[(row-1)%len(zoneAlts)], zoneAlts[1:])
	case kBool:
		return alt([]string{"1", "0"}[(u+row)%2], []string{[]string{"0", "1"}[(u+row)%2]})
	case kColor:
		return alt(fmt.Sprintf("%06X", (u*1234567)%0xFFFFFF), colorAlts)
	}
	harnessBug("cell kind %d", sp.Kind)
	return ""
}

// prevSentinel stands for "the value of this column in the previous row".
const prevSentinel = "\x00=prev"

type staticCounts struct {
	agencies, routes, stops, transfers, calendars, calendarDates, shapes, shapePoints, trips, frequencies, stopTimes int
}

var baseCounts = staticCounts{agencies: 2, routes: 2, stops: 3, transfers: 2, calendars: 2, calendarDates: 2, shapes: 2, shapePoints: 2, trips: 2, frequencies: 2, stopTimes: 4}

// count is a choice point for a row count: default, then fewer, then more.
func (g *staticGen) count(name string, base int, alts ...int) int {
	k := g.choose("rows."+name, len(alts)+1)
	if k == 0 {
		return base
	}
	return alts[k-1]
}

// genStaticFeed builds a well-formed feed. With vary=false it is the base feed.
func genStaticFeed(c *Ctx, vary bool) *feedModel {
	return genStaticFeedN(c, vary, baseCounts, nil, nil)
}

var seqVals = []int{2, 10, 100, 0, 33, 1000, 7, 250}

// genStaticFeedN builds a feed with the given row counts. stTrips (optional) names the trip
// of every stop_times row, shapeOfRow (optional) the shape of every shapes row; sequence
// numbers are then assigned per trip / shape from seqVals (text order != numeric order).
func genStaticFeedN(c *Ctx, vary bool, n staticCounts, stTrips []int, shapeOfRow []int) *feedModel {
	g := &staticGen{c: c, vary: vary, style: map[string]int{}}
	if stTrips != nil {
		n.stopTimes = len(stTrips)
	}
	if shapeOfRow != nil {
		n.shapePoints = 1
		n.shapes = len(shapeOfRow)
	}
	if vary {
		n.agencies = g.count("agency", 2, 1, 3)
		n.routes = g.count("routes", 2, 1, 3)
		n.stops = g.count("stops", 3, 1, 2, 4)
		n.transfers = g.count("transfers", 2, 0, 1, 3)
		n.calendars = g.count("calendar", 2, 1, 3)
		n.calendarDates = g.count("calendar_dates", 2, 0, 1, 3)
		n.shapes = g.count("shapes", 2, 0, 1, 3)
		n.shapePoints = g.count("shape_points", 2, 1, 3)
		n.trips = g.count("trips", 2, 1, 3)
		n.frequencies = g.count("frequencies", 2, 0, 1, 3)
		n.stopTimes = g.count("stop_times", 4, 1, 2, 6)
	}
	if n.stops < 2 {
		n.transfers = 0
	}
	m := &feedModel{}
	mk := func(file string, rows int, fill func(r int, sp colSpec) (string, bool)) *table {
		specs := staticSpecs[file]
		t := &table{File: file}
		for _, sp := range specs {
			t.Cols = append(t.Cols, sp.Name)
		}
		for r := 0; r < rows; r++ {
			row := make([]string, len(specs))
			for i, sp := range specs {
				if v, ok := fill(r, sp); ok {
					row[i] = v
				} else {
					row[i] = g.cell(file, r, sp)
					if row[i] == prevSentinel {
						row[i] = t.Rows[r-1][i]
					}
				}
			}
			t.Rows = append(t.Rows, row)
		}
		m.Tables = append(m.Tables, t)
		return t
	}
	mk("agency.txt", n.agencies, func(r int, sp colSpec) (string, bool) {
		if sp.Name == "agency_id" {
			return g.id("A", r), true
		}
		return "", false
	})
	mk("routes.txt", n.routes, func(r int, sp colSpec) (string, bool) {
		switch sp.Name {
		case "route_id":
			return g.id("R", r), true
		case "agency_id":
			return g.id("A", g.ref(fmt.Sprintf("routes[%d].agency_id", r), r, n.agencies)), true
		}
		return "", false
	})
	// stops: stop 0 is a station, stop 1 its child (location type 0 -> platform), others vary
	mk("stops.txt", n.stops, func(r int, sp colSpec) (string, bool) {
		switch sp.Name {
		case "stop_id":
			return g.id("S", r), true
		case "parent_station":
			base := 0
			if r == 1 {
				base = 1
			}
			if r == 0 {
				return "", true
			}
			k := g.choose(fmt.Sprintf("stops[%d].parent_station", r), 2)
			if (k == 0) == (base == 1) {
				return g.id("S", 0), true
			}
			return "", true
		case "location_type":
			if r == 0 {
				return []string{"1", "0", "2"}[g.choose("stops[0].location_type", 3)], true
			}
			return []string{"0", "2", "3", "4", "1"}[g.choose(fmt.Sprintf("stops[%d].location_type", r), 5)], true
		}
		return "", false
	})
	mk("transfers.txt", n.transfers, func(r int, sp colSpec) (string, bool) {
		switch sp.Name {
		case "from_stop_id":
			return g.id("S", r%n.stops), true
		case "to_stop_id":
			return g.id("S", (r+1)%n.stops), true
		}
		return "", false
	})
	mk("calendar.txt", n.calendars, func(r int, sp colSpec) (string, bool) {
		if sp.Name == "service_id" {
			return g.id("C", r), true
		}
		return "", false
	})
	// exception rows: row 0 belongs to calendar service 0, the others to exception-only services
	exOnly := 0
	mk("calendar_dates.txt", n.calendarDates, func(r int, sp colSpec) (string, bool) {
		if sp.Name == "service_id" {
			if r == 0 {
				return g.id("C", 0), true
			}
			if r-1 > exOnly {
				exOnly = r - 1
			}
			return g.id("X", (r-1)%2), true
		}
		return "", false
	})
	nExOnly := 0
	if n.calendarDates >= 2 {
		nExOnly = 1
	}
	if n.calendarDates >= 3 {
		nExOnly = 2
	}
	nShapeIDs := n.shapes
	if shapeOfRow != nil {
		nShapeIDs = 0
		for _, x := range shapeOfRow {
			if x+1 > nShapeIDs {
				nShapeIDs = x + 1
			}
		}
	}
	shapeSeen := map[int]int{}
	shapesTable := mk("shapes.txt", n.shapes*n.shapePoints, func(r int, sp colSpec) (string, bool) {
		if shapeOfRow != nil {
			switch sp.Name {
			case "shape_id":
				return g.id("SH", shapeOfRow[r]), true
			case "shape_pt_sequence":
				k := shapeSeen[shapeOfRow[r]]
				shapeSeen[shapeOfRow[r]]++
				return fmt.Sprint(seqVals[k%len(seqVals)] + k/len(seqVals)*5000), true
			}
			return "", false
		}
		switch sp.Name {
		case "shape_id":
			return g.id("SH", r/n.shapePoints), true
		case "shape_pt_sequence":
			base := []int{2, 10, 100}[(r%n.shapePoints)%3] + (r%n.shapePoints)/3*1000
			k := g.choose(fmt.Sprintf("shapes[%d].shape_pt_sequence", r), 2)
			if k == 1 {
				base += 5
			}
			return fmt.Sprint(base), true
		}
		return "", false
	})
	if vary && shapeOfRow == nil && n.shapes > 1 && g.choose("shapes.rows_of_the_shapes_interleaved", 2) == 1 {
		// the file lists the first point of every shape, then the second of every shape, ...: a shape's rows are not contiguous
		var rows [][]string
		for p := 0; p < n.shapePoints; p++ {
			for s := 0; s < n.shapes; s++ {
				rows = append(rows, shapesTable.Rows[s*n.shapePoints+p])
			}
		}
		shapesTable.Rows = rows
	}
	mk("trips.txt", n.trips, func(r int, sp colSpec) (string, bool) {
		switch sp.Name {
		case "trip_id":
			return g.id("T", r), true
		case "route_id":
			return g.id("R", g.ref(fmt.Sprintf("trips[%d].route_id", r), r, n.routes)), true
		case "service_id":
			// targets: the calendar services, then the exception-only ones
			base := (r / 2) % n.calendars
			if r%2 == 1 && nExOnly > 0 {
				base = n.calendars
			}
			k := g.ref(fmt.Sprintf("trips[%d].service_id", r), base, n.calendars+nExOnly)
			if k >= n.calendars {
				return g.id("X", k-n.calendars), true
			}
			return g.id("C", k), true
		case "shape_id":
			if nShapeIDs == 0 {
				return "", true
			}
			k := g.choose(fmt.Sprintf("trips[%d].shape_id", r), 2)
			if k == 1 {
				return "", true
			}
			return g.id("SH", r%nShapeIDs), true
		}
		return "", false
	})
	mk("frequencies.txt", n.frequencies, func(r int, sp colSpec) (string, bool) {
		if sp.Name == "trip_id" {
			return g.id("T", g.ref(fmt.Sprintf("frequencies[%d].trip_id", r), r/2, n.trips)), true
		}
		return "", false
	})
	// stop times: rows alternate between trips in blocks of two; sequences are distinct per trip
	// and chosen so that text order differs from numeric order
	tripSeen := map[int]int{}
	mk("stop_times.txt", n.stopTimes, func(r int, sp colSpec) (string, bool) {
		if stTrips != nil {
			switch sp.Name {
			case "trip_id":
				return g.id("T", stTrips[r]), true
			case "stop_id":
				return g.id("S", r%n.stops), true
			case "stop_sequence":
				k := tripSeen[stTrips[r]]
				tripSeen[stTrips[r]]++
				return fmt.Sprint(seqVals[k%len(seqVals)] + k/len(seqVals)*5000), true
			}
			return "", false
		}
		switch sp.Name {
		case "trip_id":
			// any row may belong to any trip (rows of a trip need not be contiguous); the
			// sequence numbers are distinct over the whole file
			return g.id("T", g.ref(fmt.Sprintf("stop_times[%d].trip_id", r), r/2, n.trips)), true
		case "stop_id":
			return g.id("S", g.ref(fmt.Sprintf("stop_times[%d].stop_id", r), r, n.stops)), true
		case "stop_sequence":
			base := []int{2, 10, 100, 0}[r%4] + (r/4)*1000
			k := g.choose(fmt.Sprintf("stop_times[%d].stop_sequence", r), 2)
			if k == 1 {
				base += 5
			}
			return fmt.Sprint(base), true
		}
		return "", false
	})
	return m
}

func genPresentation(c *Ctx, free bool) presentation {
	ch := c.Choose
	if free {
		ch = c.Free
	}
	return presentation{
		ColOrder:     ch("present.column_order", 3),
		ExtraCol:     ch("present.unknown_column", 7),
		ExtraFile:    ch("present.extra_files", 2) == 1,
		ReverseFiles: ch("present.member_order_reversed", 2) == 1,
		Deflate:      ch("present.deflate", 2) == 1,
		BOM:          ch("present.bom", 2) == 1,
		CRLF:         ch("present.crlf", 2) == 1,
		NoTrailingNL: ch("present.no_trailing_newline", 2) == 1,
		QuoteAll:     ch("present.quote_all", 2) == 1,
	}
}
