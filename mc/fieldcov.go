package main

// Diagnostic (enabled by VERIF_FIELDCOV=<path prefix>): which fields and enum values of the
// GTFS-realtime wire format - extensions included - the checks ever populate in a message they
// marshal. coverage.sh prints the ones no check uses: those are alphabet gaps by construction.

import (
	"fmt"
	"os"
	"sort"
	"strings"

	gtfsrt "github.com/jamespfennell/gtfs/proto"
	"google.golang.org/protobuf/proto"
	"google.golang.org/protobuf/reflect/protoreflect"
	"google.golang.org/protobuf/reflect/protoregistry"
)

var fieldcovOn = os.Getenv("VERIF_FIELDCOV") != ""
var fieldcovSeen = map[string]bool{}

func fieldcovRecord(m proto.Message) {
	if !fieldcovOn || m == nil {
		return
	}
	fieldcovWalk(m.ProtoReflect())
}

func fieldcovWalk(m protoreflect.Message) {
	m.Range(func(fd protoreflect.FieldDescriptor, v protoreflect.Value) bool {
		name := string(fd.FullName())
		fieldcovSeen[name] = true
		one := func(v protoreflect.Value) {
			switch {
			case fd.Message() != nil:
				fieldcovWalk(v.Message())
			case fd.Enum() != nil:
				ev := fd.Enum().Values().ByNumber(v.Enum())
				if ev != nil {
					fieldcovSeen[name+"="+string(ev.Name())] = true
				}
			}
		}
		if fd.IsList() {
			l := v.List()
			for i := 0; i < l.Len(); i++ {
				one(l.Get(i))
			}
		} else if !fd.IsMap() {
			one(v)
		}
		return true
	})
}

func fieldcovFlush() {
	if !fieldcovOn || len(fieldcovSeen) == 0 {
		return
	}
	var names []string
	for n := range fieldcovSeen {
		names = append(names, n)
	}
	sort.Strings(names)
	os.WriteFile(fmt.Sprintf("%s.%d", os.Getenv("VERIF_FIELDCOV"), os.Getpid()), []byte(strings.Join(names, "\n")+"\n"), 0644)
}

// fieldcovUniverse lists every field (and enum value) reachable from FeedMessage, extensions included.
func fieldcovUniverse() []string {
	seen := map[string]bool{}
	var out []string
	var walk func(md protoreflect.MessageDescriptor)
	addField := func(fd protoreflect.FieldDescriptor) {
		name := string(fd.FullName())
		if seen[name] {
			return
		}
		seen[name] = true
		out = append(out, name)
		if fd.Enum() != nil {
			vs := fd.Enum().Values()
			for i := 0; i < vs.Len(); i++ {
				out = append(out, name+"="+string(vs.Get(i).Name()))
			}
		}
		if fd.Message() != nil {
			walk(fd.Message())
		}
	}
	walked := map[string]bool{}
	walk = func(md protoreflect.MessageDescriptor) {
		if walked[string(md.FullName())] {
			return
		}
		walked[string(md.FullName())] = true
		fs := md.Fields()
		for i := 0; i < fs.Len(); i++ {
			addField(fs.Get(i))
		}
		protoregistry.GlobalTypes.RangeExtensionsByMessage(md.FullName(), func(xt protoreflect.ExtensionType) bool {
			addField(xt.TypeDescriptor())
			return true
		})
	}
	walk((&gtfsrt.FeedMessage{}).ProtoReflect().Descriptor())
	sort.Strings(out)
	return out
}
